"""C11 — saving is neutral: pretty / packaging change layout only; save never edits memory.

impl: Document.save(target, packaging in {zip, folder, xml}, pretty in {False, True}) on every
sample and template, on generated text documents (paragraph layouts of paratok, plus frames) and on
generated documents whose pictures are shown by one or several image frames, and sequences of saves.
observed (lxml only): per paragraph / heading the ODF §6.1.2 reading, per part the start tags with
their attributes in order (flat XML: of the whole export, with depth, a picture of the package
standing for its bytes), the in-memory serialisation of the parts before / after.  model: OdfModel/Para/Pretty.lean (pretty_indent over a first-child / next-sibling
forest) driven with the same trees; TEXT_CONTENT regenerated from container.py."""
from __future__ import annotations

import io
import re
import shutil
import tempfile
from pathlib import Path

import core
import paratok as pt
from core import enc_str

SAMPLES = Path("/repo/tests/samples")
TEMPLATES = Path("/repo/src/odfdo/templates")
XML_PARTS = ("content.xml", "styles.xml", "meta.xml", "settings.xml")
TEXT_NS = pt.NS["text"]
T = pt.T
# element-only containers that can sit inside a paragraph: white space directly inside them is not text
OPAQUE = {T + "note", pt.O + "annotation", "{%s}frame" % pt.NS["draw"], T + "ruby-text", T + "tracked-changes", T + "changed-region"}
ELEMENT_ONLY = {T + "ruby", T + "note", T + "note-body", T + "list", T + "list-item", T + "section", T + "table-of-content", T + "index-body"}
DRAW_NS = "{%s}" % pt.NS["draw"]
WS = " \t\n\r"


def TRANSLATE():
    import translate

    return translate.gen_text_content()


# ---- the model's side ----------------------------------------------------------------------------------


def forest_tokens(root, labels) -> list[str] | None:
    """the tree as the words of the `pp` requests; None when it holds comments / processing instructions / binary data"""
    out: list[str] = []

    def walk(e) -> bool:
        if not isinstance(e.tag, str):
            return False
        local = e.tag.rpartition("}")[2]
        tag = f"{e.prefix}:{local}"
        if tag == "office:binary-data" or "|" in tag or " " in tag:
            return False
        lab = int(e.get(T + "c", "1")) if e.tag == T + "s" else labels.of(e.tag, e.attrib.items())
        out.append(f"O|{tag}|{lab}")
        if e.text:
            out.append("T:" + enc_str(e.text))
        for ch in e:
            if not walk(ch):
                return False
        out.append("C")
        if e.tail:
            out.append("T:" + enc_str(e.tail))
        return True

    return out if walk(root) else None


def model_requests(chk, reqs, name, doc):
    """pretty_indent of the implementation vs the Lean model on every parsed part of the document"""
    from copy import deepcopy

    from odfdo.container import pretty_indent

    present = set(doc.parts)
    for part_name in XML_PARTS:
        if part_name not in present:
            continue          # an optional part the package does not have
        try:
            part = doc.get_part(part_name)
        except Exception:  # noqa: BLE001
            continue
        if part is None:
            continue
        root = pt.lxml_of(part.root)
        n = sum(1 for _ in root.iter())
        if n > chk.n(3000, 40000):
            chk.count("model trees", "skipped (too large for this tier)")
            continue
        labels = pt.Labels()
        toks = forest_tokens(root, labels)
        if toks is None:
            chk.count("model trees", "skipped (comment / binary data)")
            continue
        pretty = forest_tokens(pretty_indent(deepcopy(root)), labels)
        chk.count("model trees", "compared")
        case = {"document": name, "part": part_name, "elements": n}
        reqs.append(("pp pretty | " + " ".join(toks), "ok " + " ".join(pretty), case))
        reqs.append(("pp wf | " + " ".join(toks), "ok true", {**case, "hypothesis": "WF"}))


# ---- independent readers ---------------------------------------------------------------------------


def reading(par) -> str:
    """ODF 1.2 §6.1.2 reading of one paragraph / heading (lxml element)"""
    out: list[str] = []
    st = {"ign": True}

    def chars(s):
        for c in s or "":
            if c in WS:
                if not st["ign"]:
                    out.append(" ")
                st["ign"] = True
            else:
                out.append(c)
                st["ign"] = False

    def walk(e, top):
        if not top:
            if e.tag == T + "s":
                out.append(" " * int(e.get(T + "c", "1"))); st["ign"] = False
                return
            if e.tag == T + "tab":
                out.append("\t"); st["ign"] = False
                return
            if e.tag == T + "line-break":
                out.append("\n"); st["ign"] = False
                return
            if e.tag in OPAQUE or (isinstance(e.tag, str) and e.tag.startswith(DRAW_NS)):
                return
        if e.tag not in ELEMENT_ONLY:
            chars(e.text)
        for ch in e:
            if isinstance(ch.tag, str):
                walk(ch, False)
            if e.tag not in ELEMENT_ONLY:
                chars(ch.tail)

    walk(par, True)
    s = "".join(out)
    if st["ign"] and s.endswith(" ") and out and out[-1] == " ":
        s = s[:-1]
    return s


def part_view(root):
    """(readings of all paragraphs and headings in document order, start tags with sorted attributes in order)"""
    reads = [reading(p) for p in root.iter(T + "p", T + "h")]
    skel = [(e.tag, tuple(sorted(e.attrib.items()))) for e in root.iter() if isinstance(e.tag, str)]
    return reads, skel


def doc_view(doc) -> dict:
    """view of a document as loaded: per XML part"""
    from lxml import etree

    out = {}
    for name in XML_PARTS:
        try:
            data = doc.container.get_part(name)
        except Exception:  # noqa: BLE001
            continue
        if data is None:
            continue
        out[name] = part_view(etree.fromstring(data))
    return out


def flat_view(data: bytes) -> dict:
    """view of a flat-XML export: the children of office:document, by the part they come from"""
    from lxml import etree

    root = etree.fromstring(data)
    reads = [reading(p) for p in root.iter(T + "p", T + "h")]
    inside: list = []
    return {"reads": reads, "skel": structure(root, None, inside), "inside": inside}


IMAGE = DRAW_NS + "image"
BINARY = pt.O + "binary-data"
HREF = "{http://www.w3.org/1999/xlink}href"
FLAT_ORDER = ("meta.xml", "settings.xml", "styles.xml", "content.xml")  # the order in which the flat export lines the parts up


def picture_id(data: bytes) -> str:
    import hashlib

    return f"{len(data)} bytes sha1={hashlib.sha1(data).hexdigest()[:16]}"


def structure(root, pictures, inside, base=()) -> list:
    """the descendants of `root` in document order as (depth, tag, sorted attributes).  The one thing a flat file must write
    differently is a picture of the package: there draw:image carries office:binary-data instead of the xlink reference
    (ODF 1.2 part 1, 10.4.4).  Such a draw:image is one entry (depth, draw:image, 'picture', length and digest of its bytes)
    on both sides: in the flat file the decoded binary data, in a package part (`pictures` = parts of the package, only
    given for content.xml, whose pictures the export embeds) the bytes of the part the href names.  What else such a
    draw:image holds (ODF allows text:p) goes to `inside`, apart."""
    import base64

    out: list = []

    def walk(e, depth):
        for ch in e:
            if not isinstance(ch.tag, str):
                continue
            if ch.tag == IMAGE:
                data = None
                binary = ch.find(BINARY)
                if binary is not None:
                    try:
                        data = base64.b64decode(binary.text or "")
                    except Exception:  # noqa: BLE001
                        data = b"?" + (binary.text or "").encode()
                elif pictures is not None and ch.get(HREF):
                    data = pictures.get(ch.get(HREF).removeprefix("./")) or None
                if data is not None:
                    out.append((depth, IMAGE, "picture", picture_id(data)))
                    inside.append([(x.tag, tuple(sorted(x.attrib.items()))) for x in ch.iterdescendants() if isinstance(x.tag, str) and x.tag != BINARY])
                    continue
            out.append((depth, ch.tag, tuple(sorted(ch.attrib.items()))))
            walk(ch, depth + 1)

    walk(root, 1)
    return out


def flat_expected(zip_bytes: bytes) -> dict:
    """what the flat export of the document saved as `zip_bytes` has to hold: the children of the root of meta, settings,
    styles and content, one part after the other, the pictures of content.xml taken from the package"""
    import zipfile

    from lxml import etree

    skel: list = []
    inside: list = []
    with zipfile.ZipFile(io.BytesIO(zip_bytes)) as z:
        names = set(z.namelist())
        pictures = {n: z.read(n) for n in names if not n.endswith("/")}
        for part in FLAT_ORDER:
            if part in names:
                skel += structure(etree.fromstring(z.read(part)), pictures if part == "content.xml" else None, inside)
    return {"skel": skel, "inside": inside}


def show(entry) -> str:
    if entry is None:
        return "nothing (end of the document)"
    depth, tag, *rest = entry
    local = tag.rpartition("}")[2]
    if rest[0] == "picture":
        return f"depth {depth}: draw:image with picture {rest[1]}"
    return f"depth {depth}: {local} {dict((k.rpartition('}')[2], v) for k, v in rest[0])}"[:240]


def memory(doc) -> dict:
    """serialisation of the parsed parts, generator stamp neutralised"""
    out = {}
    present = set(doc.parts)
    for name in XML_PARTS:
        if name not in present:
            continue          # an optional part the package does not have (settings.xml)
        try:
            part = doc.get_part(name)
        except Exception:  # noqa: BLE001
            continue
        if part is None:
            continue
        s = part.serialize()
        if name == "meta.xml":
            s = re.sub(rb"<meta:generator>[^<]*</meta:generator>", b"<meta:generator/>", s)
        out[name] = s
    return out


def norm_meta(view: dict) -> dict:
    """drop the generator stamp from a view"""
    if "meta.xml" not in view:
        return view
    reads, skel = view["meta.xml"]
    return {**view, "meta.xml": (reads, skel)}


# ---- documents ---------------------------------------------------------------------------------------


def sample_paths():
    out = []
    for d in (SAMPLES, TEMPLATES):
        for p in sorted(d.iterdir()):
            if p.suffix in (".odt", ".ods", ".odp", ".odg", ".ott", ".ots", ".otp", ".otg"):
                out.append(p)
    return out


def generated_doc(rng):
    from odfdo import Document, Element, Frame, Header, Paragraph

    doc = Document("text")
    body = doc.body
    body.clear()
    for i in range(rng.randrange(2, 6)):
        pieces = pt.gen_pieces(rng, raw_ws=rng.random() < 0.2)
        tag = "text:h" if rng.random() < 0.2 else "text:p"
        p = pt.make_paragraph(pieces, tag)
        if tag == "text:h":
            p.set_attribute("text:outline-level", "1")
        if rng.random() < 0.3:
            fr = Frame.text_frame("in frame  x", size=("2cm", "1cm"), name=f"f{i}", anchor_type="as-char")
            kids = p.children
            if kids and rng.random() < 0.7:
                k = rng.choice(kids)
                tail = pt.lxml_of(k).tail
                k.insert(fr, xmlposition=3)  # NEXT_SIBLING
            else:
                p.append(fr)
            if rng.random() < 0.5:
                pt.lxml_of(fr).tail = rng.choice([" after", "x", " "])
        body.append(p)
    return doc


def random_png(rng) -> bytes:
    """a valid small PNG (RGB, 1..3 x 1..3 pixels) with random pixels"""
    import struct
    import zlib

    def chunk(kind: bytes, data: bytes) -> bytes:
        body = kind + data
        return struct.pack(">I", len(data)) + body + struct.pack(">I", zlib.crc32(body))

    w, h = rng.randrange(1, 4), rng.randrange(1, 4)
    raw = b"".join(b"\x00" + bytes(rng.randrange(256) for _ in range(3 * w)) for _ in range(h))
    return b"\x89PNG\r\n\x1a\n" + chunk(b"IHDR", struct.pack(">IIBBBBB", w, h, 8, 2, 0, 0, 0)) + chunk(b"IDAT", zlib.compress(raw)) + chunk(b"IEND", b"")


def generated_picture_doc(rng):
    """a text document or a presentation with 1..3 pictures, each added ONCE to the package (Document.add_file, from a
    file-like object or from a path) and shown by 1..3 image frames (a logo repeated on several pages / in several
    paragraphs), frames of different pictures interleaved, now and then a picture that is not in the package (http href)
    and a text frame; in a text document the frames sit at random places of generated paragraph layouts"""
    from odfdo import Document, DrawPage, Frame

    kind = "text" if rng.random() < 0.7 else "presentation"
    doc = Document(kind)
    body = doc.body
    body.clear()
    uses: list = []
    shared = rng.random() < 0.85
    for k in range(rng.randrange(1, 4)):
        data = random_png(rng)
        if rng.random() < 0.5:
            uri = doc.add_file(io.BytesIO(data))
        else:
            with tempfile.NamedTemporaryFile(suffix=rng.choice([".png", ".PNG", ".img"]), dir="/var/tmp", prefix="c11-pic-") as f:
                f.write(data)
                f.flush()
                uri = doc.add_file(f.name)
        times = rng.choice([2, 3]) if (shared and k == 0) else rng.choice([1, 1, 2, 3])
        uses += [("./" + uri) if rng.random() < 0.15 else uri for _ in range(times)]
    if rng.random() < 0.25:
        uses.append(f"http://h/pic{rng.randrange(3)}.png")
    if rng.random() < 0.3:
        uses.append(None)  # a text frame
    rng.shuffle(uses)
    if rng.random() < 0.5:
        # embedded objects: sub-documents with XML parts of their own, listed in the manifest
        ons = 'xmlns:office="urn:oasis:names:tc:opendocument:xmlns:office:1.0" xmlns:text="urn:oasis:names:tc:opendocument:xmlns:text:1.0"'
        for k in range(rng.randrange(1, 3)):
            base = f"Object {k + 1}"
            doc.container.set_part(f"{base}/content.xml", (f'<?xml version="1.0" encoding="UTF-8"?>\n<office:document-content {ons} office:version="1.2"><office:body>'
                                                            f'<office:text><text:p>object {k} text</text:p></office:text></office:body></office:document-content>').encode())
            doc.container.set_part(f"{base}/styles.xml", f'<?xml version="1.0" encoding="UTF-8"?>\n<office:document-styles {ons} office:version="1.2"><office:styles/></office:document-styles>'.encode())
            doc.manifest.add_full_path(f"{base}/", "application/vnd.oasis.opendocument.text")
            doc.manifest.add_full_path(f"{base}/content.xml", "text/xml")
            doc.manifest.add_full_path(f"{base}/styles.xml", "text/xml")

    def frame(i, uri, anchor):
        if uri is None:
            return Frame.text_frame("in frame  x", size=("2cm", "1cm"), name=f"t{i}", anchor_type=anchor)
        pos = (f"{rng.randrange(9)}cm", f"{rng.randrange(9)}cm") if anchor != "as-char" and rng.random() < 0.5 else None
        caption = rng.choice([None, None, "caption", "two  blanks"])      # a paragraph held by the draw:image itself
        return Frame.image_frame(uri, name=f"logo{i}", size=(f"{rng.randrange(1, 4)}cm", "2cm"), position=pos, anchor_type=anchor, text=caption)

    if kind == "presentation":
        page = None
        for i, uri in enumerate(uses):
            if page is None or rng.random() < 0.6:
                page = DrawPage(f"page{i}", name=f"Page {i}")
                body.append(page)
            page.append(frame(i, uri, "page"))
        return doc
    pars = []
    for i in range(rng.randrange(1, 5)):
        tag = "text:h" if rng.random() < 0.2 else "text:p"
        p = pt.make_paragraph(pt.gen_pieces(rng, raw_ws=rng.random() < 0.2), tag)
        if tag == "text:h":
            p.set_attribute("text:outline-level", "1")
        pars.append(p)
        body.append(p)
    for i, uri in enumerate(uses):
        p = rng.choice(pars)
        fr = frame(i, uri, rng.choice(["as-char", "as-char", "char", "paragraph"]))
        kids = p.children
        if kids and rng.random() < 0.7:
            rng.choice(kids).insert(fr, xmlposition=3)  # NEXT_SIBLING
        else:
            p.append(fr)
        if rng.random() < 0.5:
            pt.lxml_of(fr).tail = rng.choice([" after", "x", " "])
    return doc


def stripped_doc(rng, tmp: Path):
    """a sample or template whose package lacks a random selection of the parts ODF makes optional (settings.xml, the thumbnail,
    manifest.rdf, the Configurations2 tree), with their manifest entries: opened from memory or from a file"""
    import zipfile

    from lxml import etree
    from odfdo import Document

    src = rng.choice([p for p in sample_paths() if p.suffix in (".odt", ".ods", ".odp", ".odg")])
    optional = ["settings.xml", "Thumbnails/", "manifest.rdf", "Configurations2/"]
    drop = ["settings.xml"] + [o for o in optional[1:] if rng.random() < 0.4] if rng.random() < 0.8 else rng.sample(optional, 2)
    gone = lambda n: any(n == d or (d.endswith("/") and n.startswith(d)) for d in drop)  # noqa: E731
    out = io.BytesIO()
    mns = "{urn:oasis:names:tc:opendocument:xmlns:manifest:1.0}"
    with zipfile.ZipFile(src) as z, zipfile.ZipFile(out, "w") as w:
        for i in z.infolist():
            if gone(i.filename):
                continue
            data = z.read(i.filename)
            if i.filename == "META-INF/manifest.xml":
                root = etree.fromstring(data)
                for e in list(root.iter(mns + "file-entry")):
                    if gone(e.get(mns + "full-path")):
                        root.remove(e)
                data = etree.tostring(root, xml_declaration=True, encoding="UTF-8")
            w.writestr(i, data)
    if rng.random() < 0.5:
        return Document(io.BytesIO(out.getvalue()))
    f = tmp / f"stripped-{rng.randrange(10**9)}{src.suffix}"
    f.write_bytes(out.getvalue())
    return Document(f)


def save_as(doc, packaging, pretty, tmp: Path):
    """returns ('zip'|'folder'|'xml', bytes or path)"""
    if packaging == "zip":
        bio = io.BytesIO()
        doc.save(bio, pretty=pretty)
        return bio.getvalue()
    if packaging == "folder":
        target = tmp / "out.odt"
        if (tmp / "out.odt.folder").exists():
            shutil.rmtree(tmp / "out.odt.folder")
        doc.save(target, packaging="folder", pretty=pretty)
        return tmp / "out.odt.folder"
    target = tmp / "out.xml"
    doc.save(target, packaging="xml", pretty=pretty)
    return target.read_bytes()


def part_bytes(zip_bytes: bytes) -> dict:
    import zipfile

    out = {}
    with zipfile.ZipFile(io.BytesIO(zip_bytes)) as z:
        for n in z.namelist():
            data = z.read(n)
            if n == "meta.xml":
                data = re.sub(rb"<meta:generator>[^<]*</meta:generator>", b"<meta:generator/>", data)
            if n.endswith(".xml") or n.endswith(".rdf"):
                # the same XML document, whatever the escaping the serialiser chose
                from lxml import etree

                try:
                    data = etree.tostring(etree.fromstring(data), method="c14n")
                except etree.XMLSyntaxError:
                    pass
            out[n] = data
    return out


def whole_package(kind, art) -> dict:
    """name -> content of every part of a saved package; XML parts up to layout (white-space-only text nodes dropped, canonical form),
    the generator string blanked, the manifest as its set of entries"""
    import zipfile
    from lxml import etree

    raw = {}
    if kind == "zip":
        with zipfile.ZipFile(io.BytesIO(art)) as z:
            for n in z.namelist():
                if not n.endswith("/"):
                    raw[n] = z.read(n)
    else:
        for f in sorted(Path(art).rglob("*")):
            if f.is_file():
                raw[f.relative_to(art).as_posix()] = f.read_bytes()
    out = {}
    for n, data in raw.items():
        if n.endswith(".xml") or n.endswith(".rdf"):
            if n == "meta.xml":
                data = re.sub(rb"<meta:generator>[^<]*</meta:generator>", b"<meta:generator/>", data)
            try:
                root = etree.fromstring(data, etree.XMLParser(remove_blank_text=True))
            except etree.XMLSyntaxError:
                out[n] = data
                continue
            if n == "META-INF/manifest.xml":
                mns = "{urn:oasis:names:tc:opendocument:xmlns:manifest:1.0}"
                out[n] = sorted((e.get(mns + "full-path"), e.get(mns + "media-type")) for e in root.iter(mns + "file-entry"))
                continue
            for e in root.iter():
                if e.text is not None and not e.text.strip():
                    e.text = None
                if e.tail is not None and not e.tail.strip():
                    e.tail = None
            out[n] = etree.tostring(root, method="c14n")
        else:
            out[n] = data
    return out


def load_view(kind, art):
    from odfdo import Document

    if kind == "zip":
        return doc_view(Document(io.BytesIO(art)))
    if kind == "folder":
        return doc_view(Document(art))
    return flat_view(art)


def run(chk: core.Check) -> None:
    from odfdo import Document

    rng = chk.rng
    chk.rule = (
        "documents: every sample and template of the repository + the same with a selection of the parts ODF makes optional removed from the package (settings.xml, thumbnail, manifest.rdf, Configurations2; opened from memory or from a file) + generated text documents (paragraph / heading layouts of nested spans, links, text:s, tab, "
        "line-break, bookmarks, notes, frames in every adjacency, a fifth with raw white-space runs) + generated text documents and presentations with 1..3 "
        "pictures, each added once to the package (Document.add_file from a file object or a path) and shown by 1..3 image frames in interleaved order "
        "(a logo on several pages / in several paragraphs), now and then an http picture and a text frame x pretty in {False, True} x packaging in "
        "{zip, folder, xml}; the same documents edited in memory in every kind of part (body, XML parts of embedded objects through get_part, meta, manifest through add_file / del_part) and saved for the first time as pretty zip / folder / pretty folder, the package compared part for part with the plain zip save; save sequences (twice; pretty then plain; save / edit through a reference taken before the save / save again). flat XML: besides the paragraph texts, every element at its depth with its "
        "attribute values in the order of the plain zip save (meta, settings, styles, content), a picture of the package embedded with the bytes of its part "
        "at the draw:image that references it. non-trivial = a document whose paragraphs hold inline elements; distinct by (document, configuration)"
    )
    tmp = Path(tempfile.mkdtemp(prefix="c11-", dir="/var/tmp"))
    try:
        docs = [(p.name, (lambda p=p: Document(p))) for p in sample_paths()]
        if chk.quick() and len(docs) > 24:
            # every second document, and always those that hold embedded objects (sub-documents with XML parts of their own)
            import zipfile as _zf

            def has_objects(p):
                try:
                    return any("/" in n and not n.startswith("META-INF/") and n.endswith("/content.xml") for n in _zf.ZipFile(p).namelist())
                except Exception:  # noqa: BLE001
                    return False

            with_objects = {p.name for p in sample_paths() if has_objects(p)}
            docs = [d for i, d in enumerate(docs) if i % 2 == 0 or d[0] in with_objects]
        gens = []
        for i in range(chk.n(40, 400)):
            seed = rng.randrange(10**9)
            gens.append((f"generated#{seed}", (lambda seed=seed: generated_doc(__import__("random").Random(seed)))))
        for i in range(chk.n(12, 150)):
            seed = rng.randrange(10**9)
            gens.append((f"pictures#{seed}", (lambda seed=seed: generated_picture_doc(__import__("random").Random(seed)))))
        for i in range(chk.n(10, 80)):
            seed = rng.randrange(10**9)
            gens.append((f"without-optional-parts#{seed}", (lambda seed=seed: stripped_doc(__import__("random").Random(seed), tmp))))
        reqs: list = []
        for name, mk in docs + gens:
            one_document(chk, rng, name, mk, tmp)
            try:
                model_requests(chk, reqs, name, mk())
            except Exception as e:  # noqa: BLE001
                chk.disagree({"document": name, "exception": repr(e)}, "pretty_indent of the implementation raised on a parsed part")
        answers = core.run_driver([q for q, _, _ in reqs])
        for (q, exp, case), ans in zip(reqs, answers):
            if exp != ans:
                if case.get("hypothesis"):
                    chk.count("WF hypothesis", "does not hold")
                    chk.extra.setdefault("wf_fails", []).append(case)
                    continue
                k = next((i for i, (a, b) in enumerate(zip(exp.split(" "), ans.split(" "))) if a != b), None)
                chk.disagree({**case, "first_difference_at_word": k, "impl": exp.split(" ")[max(0, (k or 0) - 3):(k or 0) + 3], "model": ans.split(" ")[max(0, (k or 0) - 3):(k or 0) + 3]},
                             "pretty_indent: implementation and model give different trees")
            elif case.get("hypothesis"):
                chk.count("WF hypothesis", "holds")
    finally:
        shutil.rmtree(tmp, ignore_errors=True)


def one_document(chk, rng, name, mk, tmp):
    from lxml import etree

    case0 = {"document": name}
    try:
        doc = mk()
        ref_bytes = save_as(doc, "zip", False, tmp)
        ref = load_view("zip", ref_bytes)
        flat_ref = flat_expected(ref_bytes)
    except Exception as e:  # noqa: BLE001
        chk.fail({**case0, "exception": repr(e), "clause": "plain-save"}, f"plain zip save raised {type(e).__name__}")
        return
    nontriv = any(any(t for t in reads) for reads, _ in ref.values())
    ref_reads_all = [r for n in XML_PARTS if n in ref for r in ref[n][0]]
    configs = [(pk, pr) for pk in ("zip", "folder", "xml") for pr in (False, True)]
    for packaging, pretty in configs:
        case = {**case0, "packaging": packaging, "pretty": pretty}
        chk.case((name, packaging, pretty), nontrivial=nontriv, sample=case if nontriv else None)
        chk.count("configuration", f"{packaging}/{'pretty' if pretty else 'plain'}")
        try:
            doc = mk()
            # parse every part first, so that "memory" is the parsed trees
            mem0 = memory(doc)
            art = save_as(doc, packaging, pretty, tmp)
            mem1 = memory(doc)
        except Exception as e:  # noqa: BLE001
            chk.fail({**case, "exception": repr(e), "clause": "save-raises"}, f"save raised {type(e).__name__}")
            continue
        if mem0 != mem1:
            which = [n for n in mem0 if mem0[n] != mem1.get(n)]
            chk.fail({**case, "clause": "memory-unchanged", "parts": which}, "saving changed the in-memory document")
            continue
        try:
            view = load_view(packaging, art)
        except Exception as e:  # noqa: BLE001
            chk.fail({**case, "exception": repr(e), "clause": "reload"}, f"the saved document cannot be read back: {type(e).__name__}")
            continue
        if packaging == "xml":
            got = view["reads"]
            # the flat export holds the paragraphs of content, styles and meta: compare as multisets of non-empty readings in order per part is not
            # possible (one tree): compare the sequence of the content part, which the export keeps in order
            want = [r for n in ("content.xml",) if n in ref for r in ref[n][0]]
            missing = [r for r in want if r not in got]
            if missing:
                chk.fail({**case, "clause": "paragraph-text", "missing": missing[:3]}, "flat XML export: the text of a paragraph differs from the plain zip save")
                continue
            flat_structure(chk, case, flat_ref, view)
            continue
        for part in XML_PARTS:
            if part not in ref:
                continue
            if part not in view:
                chk.fail({**case, "clause": "part-missing", "part": part}, "a part is missing from the saved document")
                break
            r0, s0 = ref[part]
            r1, s1 = view[part]
            if part == "meta.xml":
                pass
            if r0 != r1:
                k = next(i for i in range(min(len(r0), len(r1)) + 1) if i >= len(r0) or i >= len(r1) or r0[i] != r1[i])
                chk.fail({**case, "clause": "paragraph-text", "part": part, "want": r0[k] if k < len(r0) else None, "got": r1[k] if k < len(r1) else None},
                         "the readable text of a paragraph or heading differs from the plain zip save")
                break
            if s0 != s1:
                k = next(i for i in range(min(len(s0), len(s1)) + 1) if i >= len(s0) or i >= len(s1) or s0[i] != s1[i])
                chk.fail({**case, "clause": "structure-attributes", "part": part, "want": repr(s0[k] if k < len(s0) else None)[:200], "got": repr(s1[k] if k < len(s1) else None)[:200]},
                         "the element structure or an attribute value differs from the plain zip save")
                break
    # ---- save sequences ---------------------------------------------------------------------------------
    for seq in (("zip", False), ("zip", False)), (("zip", True), ("zip", False)), (("folder", True), ("zip", False)), (("zip", True), ("zip", True)):
        case = {**case0, "sequence": [list(x) for x in seq]}
        chk.case((name, seq), nontrivial=nontriv)
        try:
            doc = mk()
            arts = [save_as(doc, pk, pr, tmp) for pk, pr in seq]
            last = part_bytes(arts[-1])
            direct = part_bytes(save_as(mk(), seq[-1][0], seq[-1][1], tmp))
        except Exception as e:  # noqa: BLE001
            chk.fail({**case, "exception": repr(e), "clause": "save-sequence"}, f"a sequence of saves raised {type(e).__name__}")
            continue
        if last != direct:
            chk.fail({**case, "clause": "save-sequence"}, "the last save of a sequence does not write what a single save writes")


    # ---- the document EDITED in memory in every kind of part (body, the XML parts of embedded objects reached through get_part,
    #      meta, the manifest through add_file / del_part), then saved for the first time: every packaging and layout writes the
    #      same package as the plain zip save, part for part (XML parts up to layout)
    def edit_everything(d):
        from odfdo import Paragraph as _Pg

        touched = []
        if d.body is not None:
            d.body.append(_Pg("edited in memory"))
            touched.append("content.xml")
        for n in sorted(d.parts):
            if "/" in n and not n.startswith("META-INF/") and n.rsplit("/", 1)[1] in ("content.xml", "styles.xml"):
                d.get_part(n).root._Element__element.set("{urn:verif}mark", "edited")
                touched.append(n)
        pic = tmp / "verif-added.png"
        pic.write_bytes(random_png(__import__("random").Random(7)))
        d.add_file(pic)
        touched.append("add_file")
        if "Thumbnails/thumbnail.png" in d.parts:
            d.del_part("Thumbnails/thumbnail.png")
            touched.append("del_part")
        d.meta.title = "edited title"
        return touched

    try:
        d0 = mk()
        touched = edit_everything(d0)
        want_pkg = whole_package("zip", save_as(d0, "zip", False, tmp))
    except Exception as e:  # noqa: BLE001
        chk.fail({**case0, "exception": repr(e), "clause": "edited-plain-save"}, f"editing the document and saving it raised {type(e).__name__}")
        want_pkg = None
    if want_pkg is not None:
        for packaging, pretty in (("zip", True), ("folder", False), ("folder", True)):
            case = {**case0, "packaging": packaging, "pretty": pretty, "edited": touched}
            chk.case((name, "edited", packaging, pretty), nontrivial=True)
            chk.count("edited document", f"{packaging}/{'pretty' if pretty else 'plain'}" + (" with embedded object parts" if any("/" in x for x in touched) else ""))
            try:
                d1 = mk()
                edit_everything(d1)
                got_pkg = whole_package(packaging, save_as(d1, packaging, pretty, tmp))
            except Exception as e:  # noqa: BLE001
                chk.fail({**case, "exception": repr(e), "clause": "edited-save"}, f"saving the edited document raised {type(e).__name__}")
                continue
            bad = sorted(n for n in set(want_pkg) | set(got_pkg) if want_pkg.get(n) != got_pkg.get(n))
            if bad:
                chk.fail({**case, "clause": "edited-save", "parts": bad[:5], "missing": [n for n in bad if n not in got_pkg][:3], "unexpected": [n for n in bad if n not in want_pkg][:3]},
                         "the edited document saved with this packaging / layout is not, part for part, what the plain zip save of the same edited document writes")

    # ---- a save, an edit through a reference taken BEFORE the save, a save again: the second save writes the edited document
    #      (what a save prepared or cached must not survive an edit made without going through the part again)
    from odfdo import Paragraph as _P

    def late_edit(doc, body):
        body.append(_P("late edit  after the first save"))
        ps = body.get_paragraphs()
        if ps:
            ps[0].append(" +tail")

    for seq in (("zip", True), ("zip", True)), (("folder", True), ("zip", True)), (("zip", False), ("zip", True)), (("zip", True), ("zip", False)):
        case = {**case0, "sequence": [list(seq[0]), "edit through a reference taken before", list(seq[1])]}
        chk.case((name, "edit-between", seq), nontrivial=True)
        try:
            doc = mk()
            body = doc.body
            if body is None:
                continue
            save_as(doc, seq[0][0], seq[0][1], tmp)
            late_edit(doc, body)
            last = part_bytes(save_as(doc, seq[1][0], seq[1][1], tmp))
            ref = mk()
            late_edit(ref, ref.body)
            direct = part_bytes(save_as(ref, seq[1][0], seq[1][1], tmp))
        except Exception as e:  # noqa: BLE001
            chk.fail({**case, "exception": repr(e), "clause": "save-edit-save"}, f"save / edit / save raised {type(e).__name__}")
            continue
        if last != direct:
            bad = sorted(n for n in set(last) | set(direct) if last.get(n) != direct.get(n)) if isinstance(last, dict) and isinstance(direct, dict) else None
            chk.fail({**case, "clause": "save-edit-save", "parts": bad[:4] if bad else None},
                     "after a save, an edit and a second save, the second save does not write the edited document (it differs from a single save of the same edited document)")


def flat_structure(chk, case, want: dict, got: dict) -> None:
    """flat XML export against the plain zip save of the same document: same elements at the same depth in the same order
    with the same attribute values, and every picture of the package embedded where the zip save references it"""
    s0, s1 = want["skel"], got["skel"]
    n0 = sum(1 for x in s0 if x[1] == IMAGE)
    n1 = sum(1 for x in s1 if x[1] == IMAGE)
    chk.count("flat XML: draw:image per document", n0 if n0 < 4 else "4+")
    pics = [x[3] for x in s0 if x[2] == "picture"]
    if pics:
        most = max(pics.count(p) for p in set(pics))
        chk.count("flat XML: most draw:image showing one picture of the package", most if most < 4 else "4+")
    if s0 != s1:
        k = next(i for i in range(min(len(s0), len(s1)) + 1) if i >= len(s0) or i >= len(s1) or s0[i] != s1[i])
        a = s0[k] if k < len(s0) else None
        b = s1[k] if k < len(s1) else None
        detail = {**case, "entry": k, "want": show(a), "got": show(b), "draw:image in the zip save": n0, "draw:image in the flat XML": n1}
        if a and b and a[:3] == b[:3] and a[2] == "picture":
            chk.fail({**detail, "clause": "picture-bytes"}, "flat XML export: a draw:image embeds other bytes than the picture it shows in the plain zip save")
        elif n0 != n1:
            chk.fail({**detail, "clause": "structure-attributes"},
                     f"flat XML export: {n1} draw:image instead of the {n0} of the plain zip save (an element is lost, added or moved)")
        else:
            chk.fail({**detail, "clause": "structure-attributes"}, "flat XML export: the element structure or an attribute value differs from the plain zip save")
        return
    # what an embedded draw:image holds besides the picture (ODF allows paragraphs there: a caption) is kept
    for i, (a, b) in enumerate(zip(want["inside"], got["inside"])):
        if a or b:
            chk.count("flat XML: other children of an embedded draw:image", "kept" if a == b else "differ")
            if a != b:
                chk.fail({**case, "clause": "image-children", "image": i, "zip_save": [t.rpartition("}")[2] for t, _ in a], "flat_xml": [t.rpartition("}")[2] for t, _ in b]},
                         "flat XML export: an embedded draw:image does not hold the children (paragraphs) it holds in the plain zip save")
                return


def replay(obj: dict) -> int:
    print(obj)
    return 0
