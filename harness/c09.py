"""C09 — inserting or removing markup never alters the paragraph text around it.

impl: Paragraph.set_span / set_link (regex | offset,length), set_bookmark / set_reference_mark
(before | after | position | content | (from, to)), insert_note(after=), insert_annotation, then the
removals remove_spans / remove_links / remove_span / remove_link / delete of an inline element, on
generated paragraph layouts (nested spans and links, text:s / tab / line-break, marks, notes).
observed (lxml only): the token stream of the paragraph subtree, its text projections, the content
of the inserted elements, the position of the marks.
model: OdfModel/Para/Markup.lean driven with the same token stream; `re` supplies the matcher."""
from __future__ import annotations

import re
from datetime import datetime

import core
import paratok as pt
from core import enc_str

PATTERNS = ["a$|b", "^b|a", "(?<=a)b", "a", "b", "ab", "a+", "[ab]+", "b|c", "ab?", " ", "a b", "^a", "b$", r"\w+", "x", "zz", "(a)(b)", "a.", r"\s", "[^ ]+", "a{2}", "é", "^ ?a", r"\bb"]
XLINK_HREF = "{%s}href" % pt.NS["xlink"]
ANNOT_TXT = "me" + "2024-01-02T00:00:00" + "an"
K_BM, K_BMS, K_BME, K_RM, K_RMS, K_RME, K_NOTE, K_ANNOT, K_ANNOT_END = 6, 7, 8, 9, 10, 11, 12, 15, 16


# ---- helpers over token streams ------------------------------------------------------------------


def snapshot(para, labels, other):
    return pt.tokens(pt.lxml_of(para), labels, other)


def element_span(toks, idx):
    """index just past the end tag of the element whose start tag is toks[idx]"""
    depth = 0
    for j in range(idx, len(toks)):
        if toks[j][0] == "O":
            depth += 1
        elif toks[j][0] == "C":
            depth -= 1
            if depth == 0:
                return j + 1
    return len(toks)


def all_chars(toks) -> str:
    """every character in document order (notes included, annotations not), white-space elements expanded"""
    return pt.plain_main(pt.unhide([t for t in toks if not (t[0] == "T" and t[2])]))


def node_chars(toks, main_only=False) -> str:
    """text-node characters only (the coordinate the position arithmetic of the code counts in)"""
    return "".join(t[3] for t in toks if t[0] == "T" and not (main_only and t[2]))


def without_inner(toks, added):
    """the token stream with the content of the elements whose (kind, label) is in `added` removed"""
    out = []
    i = 0
    while i < len(toks):
        t = toks[i]
        out.append(t)
        if t[0] == "O" and (t[1], t[2]) in added:
            i = element_span(toks, i) - 1
            continue
        i += 1
    return out


def inner_plain(elem_toks):
    return pt.plain_main(pt.unhide(elem_toks[1:-1])) if elem_toks else ""


def elements_of(toks, kind, label=None):
    return [toks[i : element_span(toks, i)] for i, t in enumerate(toks) if t[0] == "O" and t[1] == kind and (label is None or t[2] == label)]


def index_of(toks, kind, label):
    for i, t in enumerate(toks):
        if t[0] == "O" and t[1] == kind and t[2] == label:
            return i
    return None


def node_matches(toks, rx, main_only=False):
    """[(token index of the text node, match)] over the text nodes in document order"""
    out = []
    for i, t in enumerate(toks):
        if t[0] == "T" and not (main_only and t[2]):
            for m in rx.finditer(t[3]):
                out.append((i, m))
    return out


def skeleton(toks, drop_kinds=()):
    """start tags (kind, label) in order, without the kinds in drop_kinds"""
    return [(t[1], t[2]) for t in toks if t[0] == "O" and t[1] not in drop_kinds]


# ---- operations ------------------------------------------------------------------------------------


def gen_insertion(rng, toks):
    total = len(node_chars(toks, main_only=True))
    k = rng.randrange(12)
    pat = rng.choice(PATTERNS)
    if k == 0:
        return ("span_re", pat)
    if k == 1:
        return ("link_re", pat)
    if k == 2:
        return ("span_off", rng.randrange(0, total + 2), rng.choice([0, 1, 2, 3, 50]))
    if k == 3:
        return ("link_off", rng.randrange(0, total + 2), rng.choice([0, 1, 2, 3, 50]))
    mk = rng.choice(["bm", "rm"])
    if k == 4:
        return ("mark_re", mk, rng.choice(["before", "after"]), pat, rng.choice([0, 0, 1, 2, -1]))
    if k == 5:
        return ("mark_pos", mk, rng.choice([0, 1, 2, total, total + 1, rng.randrange(0, total + 1)]))
    if k == 6:
        return ("mark_content", mk, pat, rng.choice([0, 0, 1, 2]))
    if k == 7:
        i = rng.randrange(0, total + 1)
        return ("mark_range", mk, i, rng.randrange(i, total + 2))
    if k == 8:
        return ("note_after", pat)
    if k == 9:
        return ("annot_re", rng.choice(["before", "after"]), pat, rng.choice([0, 0, 1, -1]))
    if k == 10:
        return ("annot_content", pat, rng.choice([0, 0, 1]))
    i = rng.randrange(0, total + 1)
    return ("annot_range", i, rng.randrange(i, total + 2))


def apply_insertion(p, op, uid):
    """run the insertion on the odfdo paragraph; uid makes names unique"""
    from odfdo import Annotation

    name = f"N{uid}"
    o = op[0]
    if o == "span_re":
        p.set_span("NEW", regex=op[1])
    elif o == "link_re":
        p.set_link("http://new/", regex=op[1])
    elif o == "span_off":
        p.set_span("NEW", offset=op[1], length=op[2])
    elif o == "link_off":
        p.set_link("http://new/", offset=op[1], length=op[2])
    elif o in ("mark_re", "mark_pos", "mark_content", "mark_range"):
        f = p.set_bookmark if op[1] == "bm" else p.set_reference_mark
        if o == "mark_re":
            f(name, **{op[2]: op[3]}, position=op[4])
        elif o == "mark_pos":
            f(name, position=op[2])
        elif o == "mark_content":
            f(name, content=op[2], position=op[3])
        else:
            f(name, position=(op[2], op[3]))
    elif o == "note_after":
        p.insert_note(after=op[1], note_id=name, citation="7", body="nb")
    elif o == "annot_re":
        p.insert_annotation(Annotation("an", creator="me", date=datetime(2024, 1, 2), name=name), **{op[1]: op[2]}, position=op[3])
    elif o == "annot_content":
        p.insert_annotation(Annotation("an", creator="me", date=datetime(2024, 1, 2), name=name), content=op[1], position=op[2])
    elif o == "annot_range":
        p.insert_annotation(Annotation("an", creator="me", date=datetime(2024, 1, 2), name=name), position=(op[1], op[2]))
    else:
        raise AssertionError(op)


def text_ok(chk, case, t0, t1, what, inserted_hidden=""):
    """the paragraph reads the same: raw projection or ODF consumer projection unchanged; the text inside
    notes / annotations changes by the inserted note only"""
    raw_same = pt.plain_main(t0) == pt.plain_main(t1)
    read_same = pt.consumer(t0) == pt.consumer(t1)
    chk.count("text", "raw-equal" if raw_same else ("reads-equal" if read_same else "DIFFERS"))
    if not (raw_same or read_same):
        chk.fail({**case, "clause": "text-unchanged", "before": pt.plain_main(t0), "after": pt.plain_main(t1)}, what)
        return False
    h0, h1 = pt.plain_hidden(t0), pt.plain_hidden(t1)
    if len(h1) != len(h0) + len(inserted_hidden) or sorted(h1) != sorted(h0 + inserted_hidden):
        chk.fail({**case, "clause": "text-unchanged", "hidden_before": h0, "hidden_after": h1}, what + " (inside a note / annotation)")
        return False
    return True


def check_insertion(chk, case, op, uid, t0, t1, exc, labels):
    """the oracle for one insertion. Returns False when a failure was reported."""
    o = op[0]
    name = f"N{uid}"
    if exc is not None:
        if t1 != t0:
            chk.fail({**case, "exception": repr(exc), "clause": "raise-without-partial-modification"}, f"{o} raised {type(exc).__name__} and left the paragraph modified")
            return False
        chk.count("outcome", f"{o}: raised {type(exc).__name__}, paragraph untouched")
        if not isinstance(exc, (ValueError, TypeError, IndexError)):
            chk.fail({**case, "exception": repr(exc), "clause": "raise"}, f"{o} raised an internal error {type(exc).__name__}")
            return False
        return True
    hidden_ins = {"note_after": "7nb", "annot_re": ANNOT_TXT, "annot_content": ANNOT_TXT, "annot_range": ANNOT_TXT}.get(o, "")
    # (annotation: dc:creator 'me' + body 'an'; dc:date is filtered out below)
    if t1 == t0:
        chk.count("outcome", f"{o}: untouched")
        return True
    if o.startswith("annot"):
        # the date is volatile text: drop it from both sides
        pass
    if not text_ok(chk, case, t0, t1, f"{o}: the paragraph text changed", hidden_ins):
        return False
    chk.count("outcome", f"{o}: modified")
    # ---- what was wrapped / where the mark went -------------------------------------------------
    if o in ("span_re", "link_re"):
        kind = pt.K_SPAN if o == "span_re" else pt.K_A
        newlab = labels.of(pt.T + "span", [(pt.T + "style-name", "NEW")]) if kind == pt.K_SPAN else labels.of(pt.T + "a", [(XLINK_HREF, "http://new/")])
        rx = re.compile(op[1])
        expected = [m.group(0) for _, m in node_matches(t0, rx)]
        got = [inner_plain(e) for e in elements_of(t1, kind, newlab)]
        old = [inner_plain(e) for e in elements_of(t0, kind, newlab)]
        if sorted(got) != sorted(expected + old) or (not old and got != expected):
            chk.fail({**case, "clause": "wraps-exactly-the-match", "expected": expected, "got": got}, f"{o}: the inserted elements do not wrap exactly the matches")
            return False
    elif o in ("span_off", "link_off"):
        kind = pt.K_SPAN if o == "span_off" else pt.K_A
        newlab = labels.of(pt.T + "span", [(pt.T + "style-name", "NEW")]) if kind == pt.K_SPAN else labels.of(pt.T + "a", [(XLINK_HREF, "http://new/")])
        off, length = op[1], op[2]
        nodes = pt.text_nodes(t0)
        cnt = 0
        exp = None
        for node in nodes:
            if len(node) + cnt <= off:
                cnt += len(node)
                continue
            ln = min(length, len(node)) if length > 0 else len(node)
            exp = node[off - cnt : off - cnt + ln]
            break
        got = [inner_plain(e) for e in elements_of(t1, kind, newlab)]
        old = [inner_plain(e) for e in elements_of(t0, kind, newlab)]
        _k = lambda v: (v is None, v or "")          # (None = no text node holds the offset: nothing can be wrapped)
        if sorted(got, key=_k) != sorted([exp] + old, key=_k):
            chk.fail({**case, "clause": "wraps-the-node-slice", "expected": exp, "got": got}, f"{o}: the inserted element does not wrap the designated characters of the text node")
            return False
        if length > 0 and not old and all_chars(t0)[off : off + length] != exp:
            chk.fail({**case, "clause": "offset-designates-readable-substring", "readable": all_chars(t0)[off : off + length], "got": exp},
                     f"{o}: wraps other characters than paragraph_text[offset:offset+length]")
            return False
    else:
        return check_marks(chk, case, op, name, t0, t1, labels)
    return True


def mark_tokens(op, name, labels):
    """(kind, label) of the tokens the operation is expected to add: (point) or (start, end)"""
    o = op[0]
    tname = pt.T + "name"
    if o.startswith("mark"):
        bm = op[1] == "bm"
        if o in ("mark_re", "mark_pos"):
            tag, k = (pt.T + "bookmark", K_BM) if bm else (pt.T + "reference-mark", K_RM)
            return [(k, labels.of(tag, [(tname, name)]))]
        t1, k1, t2, k2 = (pt.T + "bookmark-start", K_BMS, pt.T + "bookmark-end", K_BME) if bm else (pt.T + "reference-mark-start", K_RMS, pt.T + "reference-mark-end", K_RME)
        return [(k1, labels.of(t1, [(tname, name)])), (k2, labels.of(t2, [(tname, name)]))]
    if o == "note_after":
        return [(K_NOTE, labels.of(pt.T + "note", [(pt.T + "note-class", "footnote"), (pt.T + "id", name)]))]
    oname = pt.O + "name"
    a = (K_ANNOT, labels.of(pt.O + "annotation", [(oname, name)]))
    if o == "annot_re":
        return [a]
    return [a, (K_ANNOT_END, labels.of(pt.O + "annotation-end", [(oname, name)]))]


def check_marks(chk, case, op, name, t0, t1, labels):
    o = op[0]
    marks = mark_tokens(op, name, labels)
    if any(index_of(t1, k, lab) is None for k, lab in marks):
        chk.fail({**case, "clause": "mark-inserted"}, f"{o}: returned normally, the paragraph changed, but the expected element is not in it")
        return False
    # position of each mark in the all-characters coordinate and in the text-node coordinate
    t1x = without_inner(t1, set(marks))
    idx = [index_of(t1x, k, lab) for k, lab in marks]
    pos_all = [len(all_chars(t1x[:i])) for i in idx]
    pos_node = [len(node_chars(t1x[:i], main_only=True)) for i in idx]
    # the rest of the paragraph is untouched: removing the inserted elements gives back the old start tags
    added = set(marks)
    sk1 = []
    i = 0
    while i < len(t1):
        t = t1[i]
        if t[0] == "O" and (t[1], t[2]) in added:
            i = element_span(t1, i)
            continue
        if t[0] == "O":
            sk1.append((t[1], t[2]))
        i += 1
    if sk1 != skeleton(t0):
        chk.fail({**case, "clause": "markup-around-untouched"}, f"{o}: other elements of the paragraph changed")
        return False
    allc = all_chars(t0)
    if o in ("mark_re", "note_after", "annot_re"):
        mode, pat, k = (op[2], op[3], op[4]) if o == "mark_re" else (("after", op[1], 0) if o == "note_after" else (op[1], op[2], op[3]))
        ms = node_matches(t0, re.compile(pat), main_only=True)
        if not ms:
            chk.fail({**case, "clause": "no-match-untouched"}, f"{o}: no text matches the pattern but the paragraph was modified")
            return False
        ti, m = ms[-1] if k < 0 else ms[k]
        if k < 0:
            # the code: last node with a match, last match in it
            last_node = ms[-1][0]
            ti, m = [x for x in ms if x[0] == last_node][-1]
        base = len(all_chars(t0[:ti]))
        want = base + (m.start() if mode == "before" else m.end())
        if pos_all[0] != want:
            chk.fail({**case, "clause": "marks-exactly-the-match", "want": want, "got": pos_all[0], "text": allc}, f"{o}: the element is not placed at the {mode} edge of the designated match")
            return False
    elif o in ("mark_content", "annot_content"):
        pat, k = (op[2], op[3]) if o == "mark_content" else (op[1], op[2])
        ms = node_matches(t0, re.compile(pat), main_only=True)
        ti, m = ms[k]
        base = len(all_chars(t0[:ti]))
        want = (base + m.start(), base + m.end())
        if (pos_all[0], pos_all[1]) != want:
            chk.fail({**case, "clause": "marks-exactly-the-match", "want": want, "got": pos_all, "text": allc, "match": m.group(0)},
                     f"{o}: start / end do not enclose exactly the designated match")
            return False
    elif o == "mark_pos":
        if pos_node[0] != op[2]:
            chk.fail({**case, "clause": "marks-the-node-position", "want": op[2], "got": pos_node[0]}, f"{o}: the mark is not before character #position of the text nodes")
            return False
        if pos_all[0] != op[2]:
            chk.fail({**case, "clause": "offset-designates-readable-substring", "want": op[2], "got": pos_all[0]}, f"{o}: the mark is not before character #position of the paragraph text")
            return False
    elif o in ("mark_range", "annot_range"):
        i, j = (op[2], op[3]) if o == "mark_range" else (op[1], op[2])
        if (pos_node[0], pos_node[1]) != (i, j):
            chk.fail({**case, "clause": "marks-the-node-position", "want": (i, j), "got": pos_node}, f"{o}: start / end are not at the designated text-node offsets")
            return False
        if (pos_all[0], pos_all[1]) != (i, j):
            chk.fail({**case, "clause": "offset-designates-readable-substring", "want": (i, j), "got": pos_all}, f"{o}: start / end are not at the designated offsets of the paragraph text")
            return False
    return True


# ---- the model's side ---------------------------------------------------------------------------------


def enc_spans(toks, rx, main_only):
    nodes = [t for t in toks if t[0] == "T" and not (main_only and t[2])]
    if not nodes:
        return "_"
    return ";".join((",".join(f"{m.start()}-{m.end()}" for m in rx.finditer(t[3])) or "-") for t in nodes)


def body(toks):
    return toks[1:-1]


def enc_body(toks):
    return pt.enc_tokens(body(toks))


def standalone_tokens(op, name, labels, other):
    """token streams of the element(s) the operation inserts, built apart from the paragraph"""
    from odfdo import Annotation, AnnotationEnd, Note

    o = op[0]
    if o.startswith("mark"):
        return [[("O", k, lab, False), ("C",)] for k, lab in mark_tokens(op, name, labels)]
    if o == "note_after":
        return [pt.tokens(pt.lxml_of(Note(note_class="footnote", note_id=name, citation="7", body="nb")), labels, other)]
    a = Annotation("an", creator="me", date=datetime(2024, 1, 2), name=name)
    out = [pt.tokens(pt.lxml_of(a), labels, other)]
    if o != "annot_re":
        out.append(pt.tokens(pt.lxml_of(AnnotationEnd(a)), labels, other))
    return out


def model_line(op, name, t0, labels, other):
    """the request that makes the Lean model perform the same insertion on the same token stream"""
    o = op[0]
    b = enc_body(t0)
    lab_span = labels.of(pt.T + "span", [(pt.T + "style-name", "NEW")])
    lab_link = labels.of(pt.T + "a", [(XLINK_HREF, "http://new/")])
    lab_tab = labels.of(pt.T + "tab", [])
    lab_lb = labels.of(pt.T + "line-break", [])
    if o == "span_off":
        return f"mk span_off {op[1]} {op[2]} {lab_span} {lab_tab} {lab_lb} | {b}"
    if o == "link_off":
        return f"mk link_off {op[1]} {op[2]} {lab_link} | {b}"
    if o == "span_re":
        return f"mk span_re {lab_span} {lab_tab} {lab_lb} {enc_spans(body(t0), re.compile(op[1]), False)} | {b}"
    if o == "link_re":
        return f"mk link_re {lab_link} {enc_spans(body(t0), re.compile(op[1]), False)} | {b}"
    els = [pt.enc_tokens(e) for e in standalone_tokens(op, name, labels, other)]
    if o == "mark_re":
        return f"mk ins {op[2][0]} {op[4]} {enc_spans(body(t0), re.compile(op[3]), True)} | {b} | {els[0]}"
    if o == "mark_pos":
        return f"mk inspos {op[2]} | {b} | {els[0]}"
    if o == "mark_content":
        return f"mk around {op[3]} {enc_spans(body(t0), re.compile(op[2]), True)} | {b} | {els[0]} | {els[1]}"
    if o == "mark_range":
        return f"mk range {op[2]} {op[3]} | {b} | {els[0]} | {els[1]}"
    if o == "note_after":
        return f"mk ins a 0 {enc_spans(body(t0), re.compile(op[1]), True)} | {b} | {els[0]}"
    if o == "annot_re":
        return f"mk ins {op[1][0]} {op[3]} {enc_spans(body(t0), re.compile(op[2]), True)} | {b} | {els[0]}"
    if o == "annot_content":
        return f"mk around {op[2]} {enc_spans(body(t0), re.compile(op[1]), True)} | {b} | {els[0]} | {els[1]}"
    if o == "annot_range":
        return f"mk range {op[1]} {op[2]} | {b} | {els[0]} | {els[1]}"
    raise AssertionError(op)


def collapse_blanks(line: str) -> str:
    """compare modulo runs of blanks inside text nodes (strip_tags re-appends text through `_add_text`)"""
    out = []
    for w in line.split(" "):
        if w.startswith("T") and ":" in w:
            f, a = w.split(":", 1)
            cps = a.split(",") if a != "e" else []
            res = []
            for c in cps:
                if c == "32" and res and res[-1] == "32":
                    continue
                res.append(c)
            if not res:
                continue
            w = f + ":" + ",".join(res)
        out.append(w)
    return " ".join(out)


# ---- removals ----------------------------------------------------------------------------------------


def strip_result_tokens(res, labels, other):
    """remove_spans & co return an Element, or a list of str / Element when the top element itself was stripped"""
    from odfdo import Element

    if isinstance(res, Element):
        return snapshot(res, labels, other)
    toks = [("O", 0, -1, False)]
    for x in res:
        if isinstance(x, Element):
            toks += snapshot(x, labels, other)
            tail = pt.lxml_of(x).tail
            if tail is not None:
                toks.append(("T", False, False, tail))
        elif x:
            toks.append(("T", False, False, str(x)))
    return toks + [("C",)]


def check_removals(chk, rng, xml, labels, other, nontriv):
    from odfdo import Element

    t0 = snapshot(Element.from_tag(xml), labels, other)
    n_span = sum(1 for t in t0 if t[0] == "O" and t[1] == pt.K_SPAN)
    n_link = sum(1 for t in t0 if t[0] == "O" and t[1] == pt.K_A)
    plans = [("remove_spans",), ("remove_links",)]
    if n_span:
        plans.append(("remove_span", rng.randrange(n_span)))
    if n_link:
        plans.append(("remove_link", rng.randrange(n_link)))
    inl = [i for i, t in enumerate(t0) if t[0] == "O" and i > 0 and not t[3]]
    for i in rng.sample(inl, min(2, len(inl))):
        plans.append(("delete", sum(1 for j in inl if j < i)))
    # reference marks: all of them at once (strip_tags with three tags), or the start and the end tag of one range / one point mark by name
    rm_idx = [i for i, t in enumerate(t0) if t[0] == "O" and t[1] in (K_RM, K_RMS, K_RME) and not t[3]]
    if rm_idx:
        plans.append(("remove_all_reference_marks",))
        names = sorted({dict(labels.rev[t0[i][2]][1]).get(pt.T + "name") for i in rm_idx} - {None})
        if names:
            plans.append(("remove_reference_mark", rng.choice(names)))
    for plan in plans:
        p = Element.from_tag(xml)
        case = {"xml": xml, "op": plan[0], "arg": plan[1:] and plan[1]}
        chk.case((xml, plan), nontrivial=nontriv)
        chk.count("removal", plan[0])
        try:
            if plan[0] == "remove_spans":
                res = p.remove_spans()
                dropped = (pt.K_SPAN,)
            elif plan[0] == "remove_links":
                res = p.remove_links()
                dropped = (pt.K_A,)
            elif plan[0] == "remove_span":
                el = p.get_elements("descendant::text:span")[plan[1]]
                res = p.remove_span(el)
            elif plan[0] == "remove_link":
                el = p.get_elements("descendant::text:a")[plan[1]]
                res = p.remove_link(el)
            elif plan[0] == "remove_all_reference_marks":
                from odfdo.reference import remove_all_reference_marks

                res = remove_all_reference_marks(p)
                dropped = (K_RM, K_RMS, K_RME)
            elif plan[0] == "remove_reference_mark":
                from odfdo.reference import remove_reference_mark

                remove_reference_mark(p, name=plan[1])
                res = p
            else:
                els = [e for e in p.get_elements("descendant::*") if not any(a.tag in ("text:note", "office:annotation") for a in ancestors(e, p))]
                el = els[plan[1]]
                ti = inl[plan[1]]
                el.delete()
                res = p
        except Exception as e:  # noqa: BLE001
            chk.fail({**case, "exception": repr(e), "clause": "removal-raises"}, f"{plan[0]} raised {type(e).__name__}")
            continue
        t1 = strip_result_tokens(res, labels, other)
        if plan[0] == "delete":
            if t0[ti][1] not in (K_RMS, K_ANNOT):
                chk.reqs.append((f"mk delete {ti - 1} | {enc_body(t0)}", ("ok " + enc_body(t1)).strip(), case, False))
        elif plan[0] == "remove_all_reference_marks":
            chk.reqs.append((f"mk strips {K_RM},{K_RMS},{K_RME} | {enc_body(t0)}", ("ok " + enc_body(t1)).strip(), case, True))
        elif plan[0] == "remove_reference_mark":
            # what get_reference_mark / get_reference_mark_end find: the first start-or-point mark and the first end tag of that name
            def first(kinds):
                for i_, t_ in enumerate(t0):
                    if t_[0] == "O" and t_[1] in kinds and dict(labels.rev[t_[2]][1]).get(pt.T + "name") == plan[1]:
                        return i_
                return None

            hit = sorted({i_ for i_ in (first((K_RM, K_RMS)), first((K_RME,))) if i_ is not None}, reverse=True)
            chk.reqs.append((f"mk strip1s {','.join(str(i_ - 1) for i_ in hit)} | {enc_body(t0)}", ("ok " + enc_body(t1)).strip(), case, True))
        elif plan[0] in ("remove_spans", "remove_links"):
            chk.reqs.append((f"mk strip {pt.K_SPAN if plan[0] == 'remove_spans' else pt.K_A} | {enc_body(t0)}", ("ok " + enc_body(t1)).strip(), case, True))
        else:
            kk = pt.K_SPAN if plan[0] == "remove_span" else pt.K_A
            ii = [i for i, t in enumerate(t0) if t[0] == "O" and t[1] == kk][plan[1]]
            chk.reqs.append((f"mk strip1 {ii - 1} | {enc_body(t0)}", ("ok " + enc_body(t1)).strip(), case, True))
        if plan[0] == "delete":
            end = element_span(t0, ti)
            want = t0[:ti] + t0[end:]
            want_alt = want
            if t0[ti][1] in (K_RMS, K_ANNOT):
                # documented: deleting a reference-mark-start / an annotation deletes its end tag too
                attr, kend = (pt.T + "name", K_RME) if t0[ti][1] == K_RMS else (pt.O + "name", K_ANNOT_END)
                nm = dict(labels.rev[t0[ti][2]][1]).get(attr)
                for j, t in enumerate(want):
                    if t[0] == "O" and t[1] == kend and dict(labels.rev[t[2]][1]).get(attr) == nm:
                        want = want[:j] + want[j + 2 :]
                        break
            same = pt.plain_main(want) == pt.plain_main(t1) or pt.consumer(want) == pt.consumer(t1)
            if not same or pt.plain_hidden(want) != pt.plain_hidden(t1):
                chk.fail({**case, "clause": "delete-keeps-the-rest", "want": pt.plain_main(want), "got": pt.plain_main(t1)}, "delete of an inline element lost or changed characters outside it (tail included)")
            elif skeleton(t1) not in (skeleton(want), skeleton(want_alt)):
                # (the end tag of a deleted range start is looked up in the parent only when there is no document body: both outcomes are accepted)
                chk.fail({**case, "clause": "markup-around-untouched"}, "delete of an inline element changed other elements")
            continue
        raw_same = pt.plain_main(t0) == pt.plain_main(t1)
        read_same = pt.consumer(t0) == pt.consumer(t1)
        chk.count("removal text", "raw-equal" if raw_same else ("reads-equal" if read_same else "DIFFERS"))
        if not (raw_same or read_same) or pt.plain_hidden(t0) != pt.plain_hidden(t1):
            chk.fail({**case, "clause": "removal-keeps-every-character", "before": pt.plain_main(t0), "after": pt.plain_main(t1)}, f"{plan[0]}: characters were lost or changed")
            continue
        if plan[0] == "remove_reference_mark":
            gone = set(hit)
            want = [(t[1], t[2]) for i, t in enumerate(t0) if t[0] == "O" and i not in gone]
            if want[1:] != skeleton(t1)[1:]:
                chk.fail({**case, "clause": "markup-around-untouched", "before": want, "after": skeleton(t1)}, f"{plan[0]}: not exactly the tags of the named mark were removed")
        elif plan[0] in ("remove_spans", "remove_links", "remove_all_reference_marks"):
            if skeleton(t0, dropped)[1:] != skeleton(t1)[1:]:
                chk.fail({**case, "clause": "markup-around-untouched", "before": skeleton(t0, dropped), "after": skeleton(t1)}, f"{plan[0]}: other elements changed or some were left")
        else:
            kind = pt.K_SPAN if plan[0] == "remove_span" else pt.K_A
            idxs = [i for i, t in enumerate(t0) if t[0] == "O" and t[1] == kind]
            want = [(t[1], t[2]) for i, t in enumerate(t0) if t[0] == "O" and i != idxs[plan[1]]]
            if want[1:] != skeleton(t1)[1:]:
                chk.fail({**case, "clause": "markup-around-untouched", "before": want, "after": skeleton(t1)}, f"{plan[0]}: not exactly the given element was removed")


def ancestors(e, top):
    out = []
    cur = e.parent
    while cur is not None and pt.lxml_of(cur) is not pt.lxml_of(top):
        out.append(cur)
        cur = cur.parent
    return out


# ---- main ----------------------------------------------------------------------------------------------


def move_end_tags(chk, rng, p, xml0, hist, labels, other, nontriv):
    """the end tag of a range (reference mark / annotation) is set again somewhere else — `set_reference_mark_end`,
    `insert_annotation_end`: 'if some end tag already exists, replace it' —, also on a point reference mark (it becomes a range):
    the paragraph reads the same, and holds exactly one end tag of that name"""
    from odfdo import Annotation

    starts = [e for e in p.get_elements("descendant::text:reference-mark-start | descendant::text:reference-mark | descendant::office:annotation")
              if e.get_attribute_string("text:name") or e.get_attribute_string("office:name")]
    if not starts:
        return
    for _ in range(rng.randint(1, 2)):
        e = rng.choice(starts)
        if e.parent is None:
            continue
        t0 = snapshot(p, labels, other)
        words = re.findall(r"\w+", node_chars(t0, main_only=True))
        how = rng.choice(["position", "before", "after"]) if words else "position"
        kw = {"position": rng.randrange(0, max(1, len(node_chars(t0, main_only=True)) + 1))} if how == "position" else {how: re.escape(rng.choice(words)), "position": rng.choice([0, 0, 1, -1])}
        is_annot = isinstance(e, Annotation)
        name = e.name
        case = {"xml": xml0, "history": [list(x) for x in hist], "op": "insert_annotation_end" if is_annot else "set_reference_mark_end", "name": name, "args": {k: v for k, v in kw.items()}}
        chk.case((xml0, tuple(hist), case["op"], repr(kw)), nontrivial=nontriv)
        chk.count("move end tag", case["op"] + " " + how)
        # the same operation on the Lean model (Markup.moveEnd): not for a point mark (its own tag changes too)
        line = None
        if is_annot or e.tag == "text:reference-mark-start":
            from odfdo import AnnotationEnd, ReferenceMarkEnd

            el = pt.enc_tokens(pt.tokens(pt.lxml_of(AnnotationEnd(e) if is_annot else ReferenceMarkEnd(name)), labels, other))
            if how == "position":
                line = f"mk moveend p {kw['position']} - | {enc_body(t0)} | {el}"
            else:
                line = f"mk moveend {how[0]} {kw['position']} {enc_spans(body(t0), re.compile(kw[how]), True)} | {enc_body(t0)} | {el}"
        try:
            if is_annot:
                p.insert_annotation_end(e, **kw)
            else:
                p.set_reference_mark_end(e, **kw)
        except (ValueError, IndexError):
            # no such place: nothing may have changed
            if snapshot(p, labels, other) != t0:
                chk.fail({**case, "clause": "raise-without-partial-modification"}, f"{case['op']} raised and left the paragraph modified")
                return
            if line:
                chk.reqs.append((line, "none", case, False))
            continue
        except Exception as ex:  # noqa: BLE001
            chk.fail({**case, "exception": repr(ex), "clause": "raises"}, f"{case['op']} raised {type(ex).__name__}")
            return
        t1 = snapshot(p, labels, other)
        if line:
            chk.reqs.append((line, ("ok " + enc_body(t1)).strip(), case, False))
            chk.count("move end tag", "sent to the model")
        if not text_ok(chk, case, t0, t1, f"{case['op']} (moving the end of a range) altered the paragraph text"):
            return
        q = "descendant::office:annotation-end[@office:name=$n]" if is_annot else "descendant::text:reference-mark-end[@text:name=$n]"
        n_end = len(pt.lxml_of(p).xpath(q, namespaces={"office": "urn:oasis:names:tc:opendocument:xmlns:office:1.0", "text": "urn:oasis:names:tc:opendocument:xmlns:text:1.0"}, n=name))
        if n_end != 1:
            chk.fail({**case, "clause": "one-end-tag", "end_tags": n_end}, f"after {case['op']} the range has {n_end} end tags")
            return
        starts = [x for x in p.get_elements("descendant::text:reference-mark-start | descendant::office:annotation") if x.get_attribute_string("text:name") or x.get_attribute_string("office:name")]
        if not starts:
            return


def run(chk: core.Check) -> None:
    from odfdo import Element

    rng = chk.rng
    chk.rule = (
        "layouts: random inline forests (text, nested spans / links, text:s, tab, line-break, bookmarks, notes; a quarter with raw white-space runs in text "
        "nodes) x operations: set_span / set_link by regex (22 patterns: literals, classes, repetitions, alternations, anchors, groups) and by offsets in "
        "and beyond range x lengths; marks by before / after / position / content / (from, to); notes and annotations; histories of up to 3 insertions, then "
        "every removal (spans, links, one span / link, delete of an inline element, all reference marks, the reference mark of a name); then the end tag of a range (reference mark, annotation, also a point mark turned into a range) is set again elsewhere "
        "(set_reference_mark_end / insert_annotation_end by position / before / after). non-trivial = the layout has more than one text node or a white-space element; distinct by (layout xml, operation history)"
    )
    chk.classifiers["offset_counts_text_nodes_only"] = lambda case: case.get("clause") == "offset-designates-readable-substring"
    n_layouts = chk.n(400, 6000)
    chk.reqs = []
    for li in range(n_layouts):
        raw = rng.random() < 0.25
        pieces = pt.gen_pieces(rng, raw_ws=raw)
        xml0 = pt.make_paragraph(pieces).serialize()
        labels = pt.Labels()
        other: dict = {}
        t_init = snapshot(Element.from_tag(xml0), labels, other)
        nontriv = len(pt.text_nodes(t_init)) > 1 or any(t[0] == "O" and t[1] in (1, 2, 3) for t in t_init)
        chk.count("layout", f"{min(len(pt.text_nodes(t_init)), 6)} text nodes" + ("/raw-ws" if raw else ""))
        for h in range(chk.n(6, 10)):
            p = Element.from_tag(xml0)
            hist = []
            ok = True
            for step in range(rng.choice([1, 1, 2, 3])):
                t0 = snapshot(p, labels, other)
                op = gen_insertion(rng, t0)
                hist.append(op)
                uid = f"{h}x{step}"
                case = {"xml": xml0, "history": [list(x) for x in hist], "op": op[0]}
                chk.case((xml0, tuple(hist)), nontrivial=nontriv, sample=case if nontriv and step else None)
                exc = None
                line = model_line(op, f"N{uid}", t0, labels, other)
                try:
                    apply_insertion(p, op, uid)
                except Exception as e:  # noqa: BLE001
                    exc = e
                t1 = snapshot(p, labels, other)
                if exc is None or t1 == t0:
                    expected = "none" if exc is not None else ("ok " + enc_body(t1)).strip()
                    chk.reqs.append((line, expected, case, False))
                if not check_insertion(chk, case, op, uid, t0, t1, exc, labels):
                    ok = False
                    break
            if ok and h < 3:
                check_removals(chk, rng, p.serialize(), labels, other, nontriv)
            if ok and h < 4:
                move_end_tags(chk, rng, p, xml0, hist, labels, other, nontriv)
    answers = core.run_driver([q for q, _, _, _ in chk.reqs])
    for (q, exp, case, modulo_blanks), ans in zip(chk.reqs, answers):
        if modulo_blanks:
            exp, ans = collapse_blanks(exp), collapse_blanks(ans)
        if exp != ans:
            chk.disagree({**case, "line": q[:600]}, f"impl {exp[:300]!r} != model {ans[:300]!r}")


def replay(obj: dict) -> int:
    print(obj)
    return 0
