"""C07 — table XML stays structurally valid and repeat-consistent after every operation.

after EVERY step an lxml walk of the serialised table checks the listed rules independently;
the run-length structure (not only the grid) is compared with the Lean model; names: the API's
accept / reject decision vs the office rule and vs the Lean model of the check."""
from __future__ import annotations

import itertools

import core
import tables as T
from c01 import run_histories
from core import enc_str


def extra(chk, t, g, case):
    xml = t.serialize()
    lg, cols, rows, problems = T.lxml_grid(xml)
    if problems:
        chk.fail({**case, "problems": problems, "xml": xml[:2000]}, "structural rule broken: " + problems[0])
        return False
    ncols = sum(r for _, r in cols)
    nrows = sum(r for _, r in rows)
    if (t.width, t.height) != (ncols, nrows):
        chk.fail({**case, "reported": [t.width, t.height], "sum_of_repeats": [ncols, nrows]}, "reported width/height differ from the sums of the repeats in the XML")
        return False
    for cells, rrep in rows:
        w = sum(r for _, r in cells)
        if w > ncols:
            chk.fail({**case, "row_width": w, "declared_columns": ncols, "xml": xml[:2000]}, "a row is wider than the number of declared columns")
            return False
    if rows and not cols and not case.get("_limbo_ok"):
        # rows without any column: only legitimate after deleting the last column (observation, not a listed rule)
        chk.count("c07", "rows without columns (after delete_column)")
    chk.count("c07", "steps structurally valid")
    return True


def first_row_cases(chk):
    """adding the first row to a table declares its columns"""
    from odfdo import Row, Table

    rng = chk.rng
    for _ in range(chk.n(150, 1500)):
        line = T.gen_line(rng, 4)
        rep = rng.choice(T.REPS)
        how = rng.choice(["append_row", "set_row", "insert_row", "set_value", "set_cell", "append_cell", "insert_cell", "set_values", "set_row_values"])
        y = rng.choice([0, 0, 1, 3])
        x = rng.choice([0, 1, 4])
        t = Table("T")
        case = {"op": "first_row", "how": how, "line": line, "rep": rep, "x": x, "y": y}
        chk.case(repr(case), nontrivial=True)
        try:
            if how == "append_row":
                t.append_row(T.mk_row(T.expand_line(line), rep))
            elif how == "set_row":
                t.set_row(y, T.mk_row(T.expand_line(line), rep))
            elif how == "insert_row":
                t.insert_row(y, T.mk_row(T.expand_line(line), rep))
            elif how == "set_value":
                t.set_value((x, y), "v")
            elif how == "set_cell":
                t.set_cell((x, y), T.mk_cell(("a", None), rep))
            elif how == "append_cell":
                t.append_cell(y, T.mk_cell(("a", None), rep))
            elif how == "insert_cell":
                t.insert_cell((x, y), T.mk_cell(("a", None), rep))
            elif how == "set_values":
                t.set_values([["a", "b"], ["c"]], (x, y))
            else:
                t.set_row_values(y, [c[0] for c in T.expand_line(line)])
        except Exception as e:  # noqa: BLE001
            chk.fail({**case, "exception": repr(e)}, "first-row operation raised")
            continue
        lg, cols, rows, problems = T.lxml_grid(t.serialize())
        ncols = sum(r for _, r in cols)
        widest = max([sum(r for _, r in cells) for cells, _ in rows], default=0)
        if problems or not rows or ncols < max(1, widest) or (t.width, t.height) != (ncols, sum(r for _, r in rows)):
            chk.fail({**case, "problems": problems, "declared_columns": ncols, "widest_row": widest, "xml": t.serialize()[:1500]},
                     "adding the first row did not declare the columns (or size != sums)")


# ---- names -------------------------------------------------------------------------------

FORBIDDEN_TABLE = set("[]*?:/\\")


def office_accepts_table(name: str) -> bool:
    """rule of the office applications (LibreOffice ValidTabName / Excel): non-empty after
    trimming, none of [ ] * ? : / \\, no apostrophe first or last"""
    s = name.strip()
    return bool(s) and not (set(s) & FORBIDDEN_TABLE) and s[0] != "'" and s[-1] != "'"


def office_accepts_range(name: str) -> bool:
    """letters / digits / underscore only (ASCII alphabet of the check), and not of the cell-reference form letters+digits"""
    import re

    s = name.strip()
    if not s:
        return False
    if not re.fullmatch(r"[A-Za-z0-9_]+", s):
        return False
    return not re.fullmatch(r"[A-Za-z]+[0-9]+", s)


def names_part(chk):
    from odfdo import NamedRange, Table

    rng = chk.rng
    alpha_t = ["a", "B", "1", " ", "'", "[", "]", "*", "?", ":", "/", "\\", ".", "é", "&", "\t"]
    cands = [""]
    for n in (1, 2, 3):
        for tup in itertools.product(alpha_t, repeat=n):
            cands.append("".join(tup))
            if len(cands) > chk.n(2500, 6000):
                break
    for _ in range(chk.n(500, 5000)):
        cands.append("".join(rng.choice(alpha_t) for _ in range(rng.randint(4, 9))))
    reqs = []
    for s in cands:
        if "\n" in s:
            continue
        try:
            tb = Table(s)
            ok = True
            stored = tb.name
        except (ValueError, TypeError):
            ok = False
            stored = None
        exp = office_accepts_table(s)
        chk.case(("tname", s), nontrivial=bool(set(s) & (FORBIDDEN_TABLE | {"'", " "})))
        chk.count("table_name", f"api={ok} office={exp}")
        if ok != exp or (ok and stored != s.strip()):
            chk.fail({"op": "table_name", "name": s, "api_accepts": ok, "office_accepts": exp, "stored": stored},
                     "the table name check differs from the rule of the office applications")
        if all(ord(c) < 128 for c in s):
            reqs.append((f"name table {enc_str(s)}", "ok 1" if ok else "ok 0", {"op": "table_name", "name": s}))
    alpha_r = ["a", "Z", "1", "0", "_", " ", "-", ".", "$", "'", "!"]
    cands = [""]
    for n in (1, 2, 3, 4):
        for tup in itertools.product(alpha_r, repeat=n):
            cands.append("".join(tup))
    rng.shuffle(cands)
    cands = cands[: chk.n(4000, 16000)] + ["A1", "AB12", "a1b", "A1_", "_A1", "ABC123", "R1C1", "x", "1", "12", "a_1", "A 1"]
    for s in cands:
        try:
            NamedRange(s, "A1", "T")
            ok = True
        except (ValueError, TypeError):
            ok = False
        exp = office_accepts_range(s)
        chk.case(("rname", s), nontrivial=True)
        chk.count("range_name", f"api={ok} rule={exp}")
        if ok != exp:
            chk.fail({"op": "range_name", "name": s, "api_accepts": ok, "rule_accepts": exp}, "the named-range name check differs from the rule")
        reqs.append((f"name range {enc_str(s)}", "ok 1" if ok else "ok 0", {"op": "range_name", "name": s}))
    answers = core.run_driver([q for q, _, _ in reqs])
    for (q, r, case), ans in zip(reqs, answers):
        if r != ans:
            chk.disagree({**case, "line": q}, f"impl {r!r} != model {ans!r}")


def run(chk: core.Check) -> None:
    chk.rule = (
        "C01 histories, after every mutation an lxml walk checks: repeat attributes absent or >= 2, rows hold only cells, columns before rows, "
        "no row wider than the declared columns, reported size = sums of repeats; the run-length structure is compared with the Lean model; "
        "wide histories (C01 mutators mixed with rstrip / optimize_width / transpose / spans / extend_rows / set_column_cells / live-row edits, 30 % on "
        "tables with office-style merged cells: covered cells stored as repeated runs) under the same walk; first-row cases over 9 entry points; table names: all strings <= 3 over a 16-letter alphabet with every forbidden character + random longer; "
        "named-range names: strings <= 4 over an 11-letter alphabet. non-trivial as in C01 / name contains a forbidden or boundary character"
    )
    run_histories(chk, chk.n(700, 10000), 8, compare_runs=True, reads=True, extra=extra)
    # every editing history: the whole-table transformations and edits through live rows too, also on tables holding
    # merged cells the way office applications store them; decided by the lxml walk alone
    from c02 import LIVE_REPEATED, run_wide_histories

    def extra_wide(chk, t, g, case):
        if case["ops"] and case["ops"][-1].get("op") in LIVE_REPEATED:
            return True        # the caller rewrote a repeat attribute by hand: the listed rules speak of the table API (C02-F3 is about that)
        return extra(chk, t, g, case)

    run_wide_histories(chk, chk.n(350, 6000), extra=extra_wide)
    # merged cells as office applications store them, under 1-3 whole-table transformations / edits
    rng = chk.rng
    for _ in range(chk.n(400, 6000)):
        t, info = T.gen_merged_table(rng)
        done = []
        for _k in range(rng.randint(1, 3)):
            o = rng.choice(["optimize_width", "optimize_width", "rstrip", "rstrip_aggr", "set_value", "append_row", "transpose"])
            done.append({"op": o})
            chk.count("merged_ops", o)
            try:
                if o == "optimize_width":
                    t.optimize_width()
                elif o == "transpose":
                    t.transpose()
                elif o == "set_value":
                    done[-1]["xy"] = (rng.randrange(t.width + 2), rng.randrange(t.height + 2))
                    t.set_value(done[-1]["xy"], "v")
                elif o == "append_row":
                    t.append_row(T.mk_row(T.expand_line(T.gen_line(rng, 3))))
                else:
                    t.rstrip(aggressive=o == "rstrip_aggr")
            except Exception as e:  # noqa: BLE001
                chk.fail({**info, "ops": done, "exception": repr(e)}, f"{o} raised {type(e).__name__} on a table with merged cells")
                break
            case = {**info, "ops": list(done)}
            chk.case(("merged", info["merged_xml"], repr(done)), nontrivial=True)
            if extra(chk, t, None, case) is False:
                break
    first_row_cases(chk)
    names_part(chk)


def replay(obj: dict) -> int:
    print(obj)
    return 0


def TRANSLATE():
    import translate

    return translate.gen_name_rules()
