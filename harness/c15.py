"""C15 — reading, searching and exporting a document never changes it.

impl: every read-only entry point of Document, Body, Element, Paragraph, Header, Table, Row, Cell,
Meta, TOC, List, Frame, Note (enumerated by introspection against a reviewed allow-list of name
patterns, plus a table of calls with arguments), in random order, twice, on the samples, the
templates and generated spreadsheets (repeated rows / cells / columns).
observed: the serialisation of content, styles, meta, settings, manifest and the bytes of the other
parts before / after every call; the second answer against the first.
model: the package-layer reads of OdfModel/Package.lean and the count-only replace of
OdfModel/Para/Replace.lean (see OdfProps/C15.lean); the rest is exploration."""
from __future__ import annotations

import inspect
import io
import re
import types

import core
import pkg
import tables as T

LEVEL = "exploration"
XML = ("content", "styles", "meta", "settings", "manifest")
READ_PREFIXES = ("get_", "is_", "search", "iter", "traverse", "as_", "to_", "show_", "has_", "count")
READ_NAMES = {"match", "text_at", "serialize", "__str__", "__repr__", "xpath", "elements_repeated_sequence", "remove_spans", "remove_links",
              "get_formatted_text", "get_values", "clone", "export", "strip_tags"}
# documented get-or-create accessors ("Created if not found") and calls that need a target: not read-only entry points
NEVER = {"get_part", "to_bytes", "get_between", "iter_values", "get_cells_repeated_sequence", "get_variable_decls", "get_user_field_decls"}
MUTATING_HINT = re.compile(r"^(set_|append|insert|delete|del_|clear|extend|add_|rstrip|optimize|transpose|save|merge|replace_element|strip_elements|remove_span$|remove_link$|"
                           r"set$|update|sort|pop|fill|apply|new|open|from_|make_|_|delitem|minimized|clone_or)")
ARG_CALLS = {
    # name -> list of argument tuples to try (the first that the signature accepts is used)
    "search": [("a",)], "search_first": [("a",)], "search_all": [("[ae]",)], "match": [("a",)], "text_at": [(0, 5)], "replace": [("a",)],
    "get_elements": [("descendant::text:p",)], "get_element": [("descendant::text:p",)], "xpath": [("descendant::text:span",)],
    "get_paragraph": [(), ], "get_style": [("paragraph", "Standard")], "get_styles": [("paragraph",)],
    "get_cell": [((0, 0),), (0,)], "get_value": [((0, 0),), (0,)], "get_row": [(0,)], "get_column": [(0,)], "get_row_values": [(0,)], "get_column_values": [(0,)],
    "get_column_cells": [(0,)], "get_cells": [()], "get_rows": [()], "get_columns": [()], "get_values": [()], "get_table": [(0,)],
    "get_attribute": [("text:style-name",)], "get_attribute_string": [("text:style-name",)], "get_attribute_integer": [("text:outline-level",)],
    "get_formatted_text": [()], "get_named_range": [("nr",)], "get_styled_elements": [("Standard",)], "get_style_properties": [("paragraph", "Standard")],
    "get_list_style": [], "get_parent_style": [], "get_table_style": [(0,)], "get_cell_style_properties": [(0, (0, 0))],
    "get_user_defined_metadata_of_name": [("x",)], "get_statistic": [()], "traverse": [()], "traverse_columns": [()], "is_row_empty": [(0,)], "is_column_empty": [(0,)],
    "get_office_names": [()], "get_toc": [()], "get_frame": [()], "get_image": [()], "get_section": [()], "get_note": [()], "get_annotation": [()],
    "get_link": [()], "get_bookmark": [()], "get_reference_mark": [()], "get_draw_page": [()], "get_variable_set": [("x",)], "get_variable_decl": [("x",)],
    "get_user_field_decl": [("x",)], "get_user_field_value": [("x",)], "get_variable_set_value": [("x",)], "get_user_defined": [("x",)],
    "get_text_change": [()], "get_changes_ids": [()], "get_tracked_changes": [()],
}


def changed_parts(doc, before: dict, after: dict) -> list:
    """parts whose content differs; a raw part that was only LOADED in between (lazy zip / folder) is compared with its source"""
    bad = [k for k in before if k in after and before[k] != after[k]] + [k for k in before if k not in after]
    new = [k for k in after if k not in before]
    if new:
        src = {}
        path = doc.container.path
        try:
            if path is not None and path.is_file():
                import zipfile

                with zipfile.ZipFile(path) as z:
                    src = {n: z.read(n) for n in z.namelist()}
            elif path is not None and path.is_dir():
                src = {p.relative_to(path).as_posix(): p.read_bytes() for p in path.rglob("*") if p.is_file()}
        except Exception:  # noqa: BLE001
            src = {}
        for k in new:
            name = k[4:] if k.startswith("raw:") else k
            if after[k] is not None and src.get(name, src.get(name.rstrip("/"), b"" if name.endswith("/") else None)) != after[k]:
                bad.append(k)
    return bad


def snapshot(doc) -> dict:
    out = {}
    for p in XML:
        try:
            out[p] = doc.get_part(p).serialize()
        except Exception:  # noqa: BLE001
            out[p] = None
    parts = getattr(doc.container, "_Container__parts")
    for n, b in parts.items():
        if n not in ("content.xml", "styles.xml", "meta.xml", "settings.xml", "META-INF/manifest.xml"):
            out["raw:" + n] = b
    return out


def normalise(v, depth=0):
    from odfdo import Element

    if isinstance(v, Element):
        return ("E", v.serialize())
    if isinstance(v, (types.GeneratorType, map, filter, zip)) or (hasattr(v, "__next__") and hasattr(v, "__iter__")):
        v = list(v)
    if isinstance(v, (list, tuple)) and depth < 4:
        return tuple(normalise(x, depth + 1) for x in v)
    if isinstance(v, dict) and depth < 4:
        return tuple(sorted((repr(k), normalise(x, depth + 1)) for k, x in v.items()))
    if isinstance(v, set):
        return tuple(sorted(repr(x) for x in v))
    r = repr(v)
    return re.sub(r" at 0x[0-9a-f]+", "", r)


def entry_points(obj) -> list:
    """[(name, kind)] read-only entry points of the object: properties and methods whose name says they only report"""
    out = []
    cls = type(obj)
    for name in dir(cls):
        if name.startswith("_") and name not in ("__str__", "__repr__"):
            continue
        if name in NEVER:
            continue
        attr = inspect.getattr_static(cls, name, None)
        if isinstance(attr, property):
            out.append((name, "property"))
            continue
        if not callable(getattr(cls, name, None)):
            continue
        if MUTATING_HINT.match(name) and name not in READ_NAMES:
            continue
        if name in READ_NAMES or name.startswith(READ_PREFIXES):
            out.append((name, "method"))
    if cls.__name__ == "Document":
        # the export in its other mode (reStructuredText: tables, images, notes are rendered by other code paths)
        out.append(("get_formatted_text(rst_mode=True)", "special"))
    if hasattr(cls, "replace") and hasattr(cls, "append_plain_text"):
        out.append(("replace(formatted=True)", "special"))
    if cls.__name__ == "Table":
        import random

        try:
            w, h = obj.size
        except Exception:  # noqa: BLE001
            w = h = 0
        r = random.Random(w * 1000 + h)
        for base in RANGED:
            for _ in range(3):
                if base in ("get_columns", "traverse_columns"):
                    if not w:
                        continue
                    a = r.randrange(w); b = r.randrange(a, w)
                    arg = (a, b)
                elif base in ("get_rows", "traverse"):
                    if not h:
                        continue
                    a = r.randrange(h); b = r.randrange(a, h)
                    arg = (a, b)
                elif base in ("get_column_cells", "get_column_values"):
                    if not w:
                        continue
                    arg = r.randrange(w)
                elif base == "get_row_values":
                    if not h:
                        continue
                    arg = r.randrange(h)
                else:
                    if not (w and h):
                        continue
                    x = r.randrange(w); z = r.randrange(x, w); y = r.randrange(h); t = r.randrange(y, h)
                    arg = (x, y, z, t)
                out.append((f"{base}@{arg!r}", "special"))
    return out


RANGED = ["get_columns", "traverse_columns", "get_rows", "traverse", "get_cells", "get_values", "get_column_cells", "get_row_values", "get_column_values"]


def call(obj, name, kind):
    if kind == "property":
        return getattr(obj, name)
    if kind == "special":
        if name == "replace(formatted=True)":
            return obj.replace(" +", None, True)
        if name == "get_formatted_text(rst_mode=True)":
            return obj.get_formatted_text(rst_mode=True)
        base, _, arg = name.partition("@")
        fn = getattr(obj, base)
        a = eval(arg)          # noqa: S307 - the argument text is produced by entry_points below
        if base in ("traverse", "traverse_columns"):
            return list(fn(a[0], a[1]))
        return fn(a)
    fn = getattr(obj, name)
    if name in ARG_CALLS:
        last = None
        for args in ARG_CALLS[name]:
            try:
                inspect.signature(fn).bind(*args)
            except TypeError as e:
                last = e
                continue
            return fn(*args)
        if ARG_CALLS[name]:
            raise last or TypeError("no accepted argument form")
    sig = inspect.signature(fn)
    sig.bind()          # TypeError when an argument is required: skipped by the caller
    return fn()


def generated_spreadsheet(rng):
    from odfdo import Document

    doc = Document("spreadsheet")
    doc.body.clear()
    for i in range(rng.randrange(1, 3)):
        h = T.gen_history(rng, max_ops=3, reads=False)
        t = T.build_initial(h)
        t.name = f"G{i}"
        doc.body.append(t)
    # named ranges the way office applications store them: the base cell need not be the first cell of the range, addresses may
    # be relative / without the $ marks, expressions stand beside them (valid ODF that the library itself would spell otherwise)
    from odfdo import Element

    forms = ['table:base-cell-address="$G0.$E$7" table:cell-range-address="$G0.$A$1:.$B$2"',
             'table:base-cell-address="$G0.$C$3" table:cell-range-address="$G0.$B$2:.$B$2"',
             'table:base-cell-address="G0.A1" table:cell-range-address="G0.A1:G0.B3"',
             'table:base-cell-address="$G0.$A$1" table:cell-range-address="$G0.$A$1" table:range-usable-as="filter print-range"',
             'table:base-cell-address="$G0.$B$2" table:cell-range-address="$G0.$A$1:.$C$2"']
    if rng.random() < 0.7:
        picked = rng.sample(forms, rng.randint(1, 3))
        xml = ('<table:named-expressions xmlns:table="urn:oasis:names:tc:opendocument:xmlns:table:1.0">'
               + "".join(f'<table:named-range table:name="nr{k if k else ""}" {f}/>' for k, f in enumerate(picked))
               + '<table:named-expression table:name="ex1" table:base-cell-address="$G0.$A$1" table:expression="1+1"/></table:named-expressions>')
        doc.body.append(Element.from_tag(xml))
    return doc


def generated_text(rng):
    """a text document the exports have something to do with: headings, paragraphs with notes, lists, and 2..4 tables in random
    order - tables from run-length histories (repeated rows / cells, trailing empty rows and cells, styled empties), a table
    without any content, a table nested in a cell of another one"""
    from odfdo import Document, Header, List, Paragraph, Table

    doc = Document("text")
    body = doc.body
    body.clear()
    items = []
    for i in range(rng.randrange(2, 5)):
        k = rng.random()
        if k < 0.3:
            t = Table(f"E{i}", width=rng.randint(1, 3), height=rng.randint(1, 3))          # nothing to show
        else:
            t = T.build_initial(T.gen_history(rng, max_ops=3, reads=False))
            t.name = f"T{i}"
            if k < 0.6:
                # something an aggressive strip would remove: trailing empty rows / cells
                t.set_value((t.width + 1, t.height + 1), None)
                t.set_value((0, 0), "first")
            if k > 0.85:
                inner = Table(f"N{i}", width=2, height=2)
                inner.set_value((0, 0), "in")
                cell = t.get_cell((0, 0), clone=False) if t.height and t.width else None
                if cell is not None:
                    cell.append(inner)
        items.append(t)
    for i in range(rng.randrange(1, 4)):
        items.append(Header(1, f"Heading {i}"))
        p = Paragraph(f"paragraph {i}  with text")
        if rng.random() < 0.5:
            p.insert_note(after="paragraph", note_id=f"n{i}", citation="1", body="a note")
        items.append(p)
    if rng.random() < 0.5:
        items.append(List(["one", "two"]))
    rng.shuffle(items)
    for it in items:
        body.append(it)
    return doc


MAX_CELLS = 4000


def bounded(doc) -> bool:
    """every table of the document is small enough to be expanded (the property bounds the table sizes)"""
    try:
        for t in doc.body.get_elements("descendant::table:table"):
            w, h = t.size
            if w * h > MAX_CELLS:
                return False
    except Exception:  # noqa: BLE001
        return False
    return True


def targets(doc, rng) -> list:
    """objects whose read-only API is exercised: the document and a sample of what it holds"""
    out = [("Document", doc)]
    try:
        body = doc.body
    except Exception:  # noqa: BLE001
        return out
    out.append(("Body", body))
    out.append(("Meta", doc.meta))
    out.append(("Styles", doc.styles))
    out.append(("Content", doc.content))
    out.append(("Manifest", doc.manifest))

    def some(query, label, n=2):
        els = body.get_elements(query)
        for e in (rng.sample(els, n) if len(els) > n else els):
            out.append((label, e))

    some("descendant::table:table", "Table")
    some("descendant::table:table-row", "Row", 1)
    some("descendant::table:table-cell", "Cell", 1)
    some("descendant::text:p", "Paragraph")
    some("descendant::text:h", "Header", 1)
    some("descendant::text:span", "Span", 1)
    some("descendant::text:list", "List", 1)
    some("descendant::draw:frame", "Frame", 1)
    some("descendant::text:note", "Note", 1)
    some("descendant::text:table-of-content", "TOC", 1)
    some("descendant::text:a", "Link", 1)
    some("descendant::draw:page", "DrawPage", 1)
    return out


def run(chk: core.Check) -> None:
    from odfdo import Document

    rng = chk.rng
    chk.rule = (
        "documents: every sample and template (by path, lazily read) + generated spreadsheets with repeated rows / cells / columns + generated text documents (headings, paragraphs with notes, lists, 2..4 tables in random order: run-length tables with trailing empties, tables without content, nested tables); objects: the document, its body, "
        "meta, styles, content and manifest parts, and a sample of its tables, rows, cells, paragraphs, headings, spans, lists, frames, notes, tables of content, "
        "links, draw pages; entry points: every property and every method whose name says it only reports (get_*, is_*, search*, traverse*, as_*, to_*, show_*, "
        "match, text_at, serialize, str, clone, remove_spans / remove_links, export mixins, replace without replacement, the document export in both modes: plain and reStructuredText), in random order, each called twice. "
        "non-trivial = a call that returned without raising; distinct by (document, object, entry point)"
    )
    docs = [(p.name, (lambda p=p: Document(p))) for p in pkg.sample_files()] + [(f"template:{t}", (lambda t=t: Document(t))) for t in pkg.TEMPLATES]
    if chk.quick():
        docs = rng.sample(docs, 14)
    for i in range(chk.n(6, 60)):
        seed = rng.randrange(10**9)
        docs.append((f"generated#{seed}", (lambda seed=seed: generated_spreadsheet(__import__("random").Random(seed)))))
    for i in range(chk.n(8, 80)):
        seed = rng.randrange(10**9)
        docs.append((f"generated-text#{seed}", (lambda seed=seed: generated_text(__import__("random").Random(seed)))))
    for name, mk in docs:
        try:
            doc = mk()
            if not bounded(doc):
                chk.count("document", "skipped (a table larger than the bound)")
                continue
            chk.count("document", "explored")
            tg = targets(doc, rng)
        except Exception as e:  # noqa: BLE001
            chk.fail({"document": name, "exception": repr(e), "clause": "open"}, f"opening / walking the document raised {type(e).__name__}")
            continue
        calls = []
        for label, obj in tg:
            for ep, kind in entry_points(obj):
                calls.append((label, obj, ep, kind))
        rng.shuffle(calls)
        if chk.quick() and len(calls) > 260:
            # the entry points of the document itself (exports, whole-document reads) are always kept
            own = [c for c in calls if c[0] == "Document"]
            calls = own + [c for c in calls if c[0] != "Document"][:max(0, 260 - len(own))]
            rng.shuffle(calls)
        before = snapshot(doc)
        t_doc = core.now()
        for label, obj, ep, kind in calls:
            if core.now() - t_doc > (20 if chk.quick() else 120):
                chk.count("document", "time bound reached")
                break
            case = {"document": name, "object": label, "entry_point": ep}
            try:
                r1 = normalise(call(obj, ep, kind))
            except TypeError:
                chk.count("call", "skipped (needs arguments)")
                continue
            except Exception as e:  # noqa: BLE001
                chk.count("call", f"raised {type(e).__name__}")
                after = snapshot(doc)
                bad = changed_parts(doc, before, after) if after != before else []
                if bad:
                    chk.fail({**case, "clause": "unchanged", "parts": bad[:3], "raised": repr(e)[:100]}, f"{label}.{ep} raised and changed the document")
                before = after
                continue
            chk.case((name, label, ep), nontrivial=True, sample=case)
            chk.count("call", "returned")
            chk.count("object", label)
            after = snapshot(doc)
            bad = changed_parts(doc, before, after) if after != before else []
            before = after
            if bad:
                chk.fail({**case, "clause": "unchanged", "parts": bad[:3]}, f"{label}.{ep} changed the document in memory")
                continue
            try:
                r2 = normalise(call(obj, ep, kind))
            except Exception as e:  # noqa: BLE001
                chk.fail({**case, "clause": "same-answer", "exception": repr(e)[:200]}, f"{label}.{ep} raised at the second call")
                continue
            if r1 != r2 and not volatile(ep):
                chk.fail({**case, "clause": "same-answer", "first": str(r1)[:200], "second": str(r2)[:200]}, f"{label}.{ep} gives another answer the second time")
                continue
            after = snapshot(doc)
            bad = changed_parts(doc, before, after) if after != before else []
            before = after
            if bad:
                chk.fail({**case, "clause": "unchanged", "parts": bad[:3], "call": "second"}, f"{label}.{ep} changed the document in memory at the second call")


def volatile(ep: str) -> bool:
    return ep in ("__repr__",)


def replay(obj: dict) -> int:
    print(obj)
    return 0
