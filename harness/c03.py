"""C03 — saving and reopening a document loses nothing, in every packaging.

impl: histories of reads (lazy parts), edits (body, meta, styles, tables), set_part (raw and XML
parts), add_file, del_part, clone, then save as zip (path | BytesIO) or folder, reopen, repeat.
observed (zipfile / filesystem + lxml): the names and the bytes (XML parts as canonical XML) of the
saved package against the in-memory document at the time of saving (parsed parts through their
serialisation, the others through the ledger the harness keeps from the arguments of the calls).
model: OdfModel/Package.lean follows the same history (`pk` requests)."""
from __future__ import annotations

import io
import shutil
import tempfile
from pathlib import Path

from lxml import etree

import core
import pkg

C03_OPS = pkg.OPS + ["set_xml", "table"]


def expectation(s) -> dict:
    """what the package must hold if saved now (manifest.rdf reconciled as save documents it)"""
    exp = pkg.in_memory_expectation(s)
    ents = pkg.manifest_entries(exp[pkg.MANIFEST]) if pkg.MANIFEST in exp else []
    declared = any(p == "manifest.rdf" and m for p, m in ents)
    default_rdf = s.doc.container.default_manifest_rdf.encode("utf8")
    if declared and "manifest.rdf" not in exp:
        exp["manifest.rdf"] = pkg.canon("manifest.rdf", default_rdf)
    if not declared:
        exp.pop("manifest.rdf", None)
    return exp


def read_folder(folder: Path) -> dict:
    out = {}
    for p in sorted(folder.rglob("*")):
        rel = p.relative_to(folder).as_posix()
        if p.is_file():
            out[rel] = p.read_bytes()
        elif p.is_dir() and not any(p.iterdir()):
            out[rel + "/"] = b""
    return out


def layout_free(name: str, data: bytes):
    """an XML part up to the white space a pretty-printed save may add: the readings of its paragraphs and headings and
    its start tags with their attributes (C11's view); other parts: the bytes"""
    import c11

    if pkg.is_xml_name(name) and data.strip():
        try:
            return c11.part_view(etree.fromstring(data))
        except etree.XMLSyntaxError:
            return data
    return data


def compare(chk, case, exp: dict, got: dict, pretty: bool = False) -> bool:
    gotc = {n: pkg.canon(n, b) for n, b in got.items()}
    if pretty:
        exp = {n: layout_free(n, b) for n, b in exp.items()}
        gotc = {n: layout_free(n, b) for n, b in gotc.items()}
    # directory entries that hold files are implied by them
    e_names = {n for n in exp if not (n.endswith("/") and any(m != n and m.startswith(n) for m in exp))}
    g_names = {n for n in gotc if not (n.endswith("/") and any(m != n and m.startswith(n) for m in gotc))}
    lost = sorted(e_names - g_names)
    invented = sorted(g_names - e_names)
    if lost or invented:
        chk.fail({**case, "clause": "parts", "lost": lost[:5], "invented": invented[:5]}, f"parts lost {lost[:3]} / invented {invented[:3]} by save")
        return False
    diff = [n for n in sorted(e_names) if exp[n] != gotc[n]]
    if diff:
        n = diff[0]
        a, b = exp[n], gotc[n]
        if not isinstance(a, bytes) or not isinstance(b, bytes):
            chk.fail({**case, "clause": "content", "parts": diff[:5]}, f"the saved part {n!r} (pretty-printed) differs from the in-memory document in text, structure or attributes")
            return False
        k = next((i for i in range(min(len(a), len(b))) if a[i] != b[i]), min(len(a), len(b)))
        chk.fail({**case, "clause": "content", "parts": diff[:5], "expected_around": a[max(0, k - 60):k + 60].decode("utf8", "replace"), "got_around": b[max(0, k - 60):k + 60].decode("utf8", "replace")},
                 f"the saved part {n!r} differs from the in-memory document at the time of saving")
        return False
    return True


def run(chk: core.Check) -> None:
    from odfdo import Document

    rng = chk.rng
    chk.rule = (
        "histories of 0..8 operations (lazy reads, body / meta / styles / table edits, set_part of raw and of XML parts, add_file, del_part, merge_styles_from, clone) "
        "from the four templates and from samples opened by path / buffer / folder, then save as zip to a path or a buffer or as a folder, reopen the result and go on "
        "(up to 3 cycles); flat XML export checked for well-formedness and inclusion of the body. non-trivial = a history with an edit or a replaced / added / "
        "deleted part; distinct by (origin, history)"
    )
    tmp = Path(tempfile.mkdtemp(prefix="c03-", dir="/var/tmp"))
    mirror = pkg.Mirror()
    chk.mirror = mirror
    try:
        for h in range(chk.n(320, 5000)):
            kind = rng.choice(["template", "path", "path", "bytesio", "folder"])
            which = None
            if kind != "template" and rng.random() < 0.12:
                which = pkg.SAMPLES / "chart.odt"        # the sample with an embedded object
            try:
                s = pkg.open_subject(rng, kind, tmp, which)
            except Exception as e:  # noqa: BLE001
                chk.fail({"origin": kind, "exception": repr(e), "clause": "open"}, f"opening the source raised {type(e).__name__}")
                continue
            chk.count("origin", s.origin)
            mirror.new(s)
            one_history(chk, rng, s, tmp)
            for f in tmp.iterdir():
                if f.is_dir():
                    shutil.rmtree(f, ignore_errors=True)
                else:
                    f.unlink(missing_ok=True)
        mirror.run(chk)
    finally:
        shutil.rmtree(tmp, ignore_errors=True)


def object_xml_names(s):
    return sorted(n for n in s.files if "/" in n and not n.startswith("META-INF/") and n.rsplit("/", 1)[1] in ("content.xml", "styles.xml", "meta.xml", "settings.xml"))


def extra_op(rng, s):
    k = rng.random()
    objs = object_xml_names(s)
    if objs and k < 0.45:
        return ("edit_object", rng.choice(objs), rng.randrange(1000))
    if k < 0.5:
        return ("set_xml", rng.choice(["content.xml", "styles.xml", "meta.xml"]), rng.randrange(1000))
    return ("table", rng.randrange(100))


def apply_extra(s, op, mirror):
    from odfdo import Document, Table

    doc = s.doc
    s.log.append(list(op))
    if op[0] == "edit_object":
        # the XML part of an embedded object, parsed through Document.get_part and edited in memory
        part = doc.get_part(op[1])
        pkg_root = part.root._Element__element
        pkg_root.set("{urn:verif}mark", str(op[2]))
        mirror.sync_xml(s)
        return
    if op[0] == "set_xml":
        # the bytes of the same part of a fresh template of the same type, with a marker comment-free change
        name = op[1]
        base = s.files.get(name)
        if base is None:
            return
        root = etree.fromstring(base)
        root.set("{urn:verif}mark", str(op[2]))
        data = etree.tostring(root, xml_declaration=True, encoding="UTF-8")
        doc.set_part(name, data)
        s.files[name] = data
        mirror.send(s, f"set {mirror.nid(name)} {mirror.blob(name, data)}", "ok")
        s.known_parsed.pop(name, None)
        mirror.sync_xml(s)
    else:
        t = Table(f"T{op[1]}", width=2, height=2)
        t.set_value((0, 0), op[1])
        doc.body.append(t)
        mirror.sync_xml(s)


def one_history(chk, rng, s, tmp):
    from odfdo import Document

    nontriv = False
    for cycle in range(rng.choice([1, 1, 2, 3])):
        for i in range(rng.randrange(0, 9 if cycle == 0 else 4)):
            case = {"origin": s.name, "history": s.log}
            r = rng.random()
            if r < 0.08:
                s.log.append(["clone"])
                try:
                    # the clone starts from the serialisation of the parsed parts: the ledger learns them here
                    for path_, part_ in getattr(s.doc, "_Document__xmlparts", {}).items():
                        if part_ is not None:
                            s.files[path_] = part_.serialize()
                    s.doc = s.doc.clone
                except Exception as e:  # noqa: BLE001
                    chk.fail({**case, "exception": repr(e), "clause": "clone-raises"}, f"clone raised {type(e).__name__}")
                    return
                chk.mirror.clone(s)
                continue
            if r < 0.25:
                op = extra_op(rng, s)
                nontriv = True
                try:
                    apply_extra(s, op, chk.mirror)
                except Exception as e:  # noqa: BLE001
                    chk.fail({**case, "op": list(op), "exception": repr(e), "clause": "operation-raises"}, f"{op[0]} raised {type(e).__name__}")
                    return
                chk.count("operation", op[0])
                continue
            op = pkg.gen_op(rng, s)
            chk.count("operation", op[0])
            if op[0] not in ("read_part", "parts", "read_xml"):
                nontriv = True
            try:
                res = pkg.apply_op(s, op, tmp)
            except ValueError as e:
                if op[0] == "del_part" and "mandatory" in str(e):
                    s.log[-1] = s.log[-1] + ["refused"]
                    continue
                chk.fail({**case, "op": list(op), "exception": repr(e), "clause": "operation-raises"}, f"{op[0]} raised {type(e).__name__}")
                return
            except Exception as e:  # noqa: BLE001
                chk.fail({**case, "op": list(op), "exception": repr(e), "clause": "operation-raises"}, f"{op[0]} raised {type(e).__name__}")
                return
            if res == "NOOP":
                continue
            if res:
                chk.fail({**case, "op": list(op), "clause": "read"}, res)
                return
            chk.mirror.after_op(s, op)
        # ---- save ---------------------------------------------------------------------------------------
        target_kind = rng.choice(["buffer", "path", "folder", "folder-pretty"])
        s.log.append(["save", target_kind])
        case = {"origin": s.name, "history": list(s.log)}
        chk.case((s.name, repr(s.log)), nontrivial=nontriv, sample=case if nontriv else None)
        chk.count("save", target_kind)
        try:
            exp = expectation(s)
        except Exception as e:  # noqa: BLE001
            chk.fail({**case, "exception": repr(e), "clause": "serialize-raises"}, f"serialising a parsed part raised {type(e).__name__}")
            return
        default_rdf = s.doc.container.default_manifest_rdf.encode("utf8")
        try:
            if target_kind == "buffer":
                bio = io.BytesIO()
                s.doc.save(bio)
                data = bio.getvalue()
                _, got = pkg.read_zip(data)
            elif target_kind == "path":
                target = tmp / f"out-{rng.randrange(10**9)}.odt"
                s.doc.save(target)
                data = target.read_bytes()
                _, got = pkg.read_zip(data)
            else:
                target = tmp / f"out-{rng.randrange(10**9)}"
                if target_kind == "folder":
                    s.doc.save(target, packaging="folder", pretty=False)
                else:
                    s.doc.save(target, packaging="folder")          # pretty-printed by default
                folder = Path(str(target) + ".folder")
                got = read_folder(folder)
                data = None
        except Exception as e:  # noqa: BLE001
            chk.fail({**case, "exception": repr(e), "clause": "save-raises"}, f"save raised {type(e).__name__}")
            return
        if data is not None:
            chk.mirror.save(s, data, default_rdf)
        else:
            # the model's save, compared with the folder listing
            words = " ".join(f"{chk.mirror.nid(n)}:{chk.mirror.blob(n, b)}" for n, b in got.items() if not n.endswith("/") or b == b"")
            chk.mirror.send(s, f"save {chk.mirror.blob('manifest.rdf', default_rdf)}", None, case)
            chk.mirror.sync_saved(s)
        if not compare(chk, case, exp, got, pretty=(target_kind == "folder-pretty")):
            return
        # flat XML export of the same state: well formed, holds the body
        if rng.random() < 0.15:
            try:
                bio = io.BytesIO()
                s.doc.save(bio, packaging="xml", pretty=False)
                root = etree.fromstring(bio.getvalue())
                if "content.xml" in exp:
                    ons = "{urn:oasis:names:tc:opendocument:xmlns:office:1.0}"
                    body_c = etree.fromstring(exp["content.xml"]).find(ons + "body")
                    body_x = root.find(ons + "body")
                    tc = "".join(body_c.itertext()) if body_c is not None else ""
                    tx = None
                    if body_x is not None:
                        for e in body_x.iter(ons + "binary-data"):
                            e.text = None
                        tx = "".join(body_x.itertext())
                    if tx is None or "".join(tc.split()) != "".join(tx.split()):
                        chk.fail({**case, "clause": "flat-xml"}, "the flat XML export does not hold the text of the body of the document")
                        return
            except Exception as e:  # noqa: BLE001
                chk.fail({**case, "exception": repr(e), "clause": "flat-xml"}, f"flat XML export raised / is not well formed: {type(e).__name__}")
                return
        # ---- reopen --------------------------------------------------------------------------------------
        s.files = dict(got)
        try:
            if target_kind == "folder-pretty":
                # what was written is a pretty-printed copy: its bytes become the ledger of the reopened document
                pass
            if target_kind == "buffer":
                s.doc = Document(io.BytesIO(data))
                s.origin = "bytesio"
            elif target_kind == "path":
                s.doc = Document(target)
                s.origin = "path"
            else:
                s.doc = Document(folder)
                s.origin = "folder"
        except Exception as e:  # noqa: BLE001
            chk.fail({**case, "exception": repr(e), "clause": "reopen"}, f"the saved document cannot be opened: {type(e).__name__}")
            return
        s.log.append(["reopen"])
        if target_kind == "buffer":
            chk.mirror.reopen(s)
        else:
            chk.mirror.new(s)


def replay(obj: dict) -> int:
    print(obj)
    return 0
