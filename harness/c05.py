"""C05 — paragraph text round-trips exactly and is in ODF white-space normal form.

impl: Paragraph / Span / Header built from a string or by successive appends (optionally
interleaved with appended Span children); observed: inner_text, child node list (lxml),
the same after serialise + re-parse, and an independent §6.1.2 consumer over the lxml tree.
model: OdfModel/Para/Ws.lean driven with the same pieces."""
from __future__ import annotations

import itertools

import core
from core import enc_str, dec_str

NS_TEXT = "urn:oasis:names:tc:opendocument:xmlns:text:1.0"
T = "{%s}" % NS_TEXT
WS = " \t\n\r"


# ---- independent readers over the lxml tree (no odfdo code) ---------------------------


def lx(elem):
    """the lxml element behind an odfdo element, by re-parsing its serialisation"""
    from lxml import etree

    xml = elem.serialize()
    root = etree.fromstring(
        f'<r xmlns:text="{NS_TEXT}" xmlns:xlink="http://www.w3.org/1999/xlink" xmlns:office="urn:oasis:names:tc:opendocument:xmlns:office:1.0">{xml}</r>'
    )
    return root[0]


def plain(node) -> str:
    """text projection: character data + text:s/tab/line-break characters, recursively"""
    out = [node.text or ""]
    for ch in node:
        if ch.tag == T + "s":
            out.append(" " * int(ch.get(T + "c", "1")))
        elif ch.tag == T + "tab":
            out.append("\t")
        elif ch.tag == T + "line-break":
            out.append("\n")
        else:
            out.append(plain(ch))
        out.append(ch.tail or "")
    return "".join(out)


def consumer(node) -> str:
    """ODF 1.2 §6.1.2 white-space processing of one paragraph (DESIGN.md C05 'Reading')"""
    out: list[str] = []
    state = {"ign": True}

    def chars(s):
        for c in s:
            if c in WS:
                if not state["ign"]:
                    out.append(" ")
                state["ign"] = True
            else:
                out.append(c)
                state["ign"] = False

    def walk(n):
        chars(n.text or "")
        for ch in n:
            if ch.tag == T + "s":
                out.append(" " * int(ch.get(T + "c", "1")))
                state["ign"] = False
            elif ch.tag == T + "tab":
                out.append("\t")
                state["ign"] = False
            elif ch.tag == T + "line-break":
                out.append("\n")
                state["ign"] = False
            else:
                walk(ch)
            chars(ch.tail or "")

    walk(node)
    if state["ign"] and out:
        out.pop()
    return "".join(out)


def items_of(node) -> str:
    """child node list in the driver's notation"""
    out = []
    if node.text:
        out.append("T" + enc_str(node.text))
    for ch in node:
        if ch.tag == T + "s":
            out.append("S" + ch.get(T + "c", "1"))
        elif ch.tag == T + "tab":
            out.append("TAB")
        elif ch.tag == T + "line-break":
            out.append("LB")
        else:
            out.append("E" + (ch.get(T + "style-name") or "0") + ":" + enc_str(plain(ch)))
        if ch.tail:
            out.append("T" + enc_str(ch.tail))
    return " ".join(out)


# ---- generators -----------------------------------------------------------------------

RICH = ["a", "b", "é", "漢", " ", " ", "\t", "\n", "<", "&", '"', "'", "]", ">"]
# characters that ARE legal in XML 1.0 text and that some string routine or other takes for a blank or a line
# boundary (str.split(), str.splitlines(), str.isspace(), \s): to ODF they are ordinary characters
EXOTIC = ["\u0085", "\u00a0", "\u2028", "\u2029", "\u3000", "\u200b", "\u1680", "\u2003", "\ufeff"]


def splits(s: str, k: int):
    """all ways to cut s into k consecutive (possibly empty) pieces"""
    n = len(s)
    for cuts in itertools.combinations_with_replacement(range(n + 1), k - 1):
        pts = (0,) + cuts + (n,)
        yield [s[pts[i]:pts[i + 1]] for i in range(k)]


def nontrivial(s: str) -> bool:
    return "  " in s or s[:1] == " " or s[-1:] == " " or "\t" in s or "\n" in s


def run(chk: core.Check) -> None:
    from odfdo import Element, Header, Paragraph, Span

    rng = chk.rng
    chk.rule = (
        "strings over {a,space,tab,newline} exhaustively to length L (quick 6, thorough 8), every 2- and 3-way split of the strings up to "
        "length L2 (quick 5, thorough 6), random strings over a rich alphabet (non-ASCII, XML specials) with random 1-4-way splits, random strings "
        "mixing it with the Unicode blanks and line separators legal in XML (U+0085 U+00A0 U+1680 U+2003 U+2028 U+2029 U+200B U+3000 U+FEFF), for "
        "Paragraph / Span / Header, plus appends interleaved with Span children; non-trivial = the text has a run of >= 2 spaces, a "
        "leading/trailing space, a tab or a newline; distinct by (class, pieces)"
    )
    L = chk.n(6, 8)
    L2 = chk.n(5, 6)
    cases: list[tuple[str, list]] = []  # (cls, ops) ; op = ("A", str) | ("E", id, str)
    alpha = "a \t\n"
    for n in range(0, L + 1):
        for tup in itertools.product(alpha, repeat=n):
            s = "".join(tup)
            cases.append(("P", [("A", s)]))
            if n <= L2:
                for k in (2, 3):
                    for pieces in splits(s, k):
                        cases.append(("P", [("A", x) for x in pieces]))
            if n <= 4:
                cases.append(("S", [("A", s)]))
                cases.append(("H", [("A", s)]))
    chk.exhaustive = True
    for _ in range(chk.n(3000, 40000)):
        n = rng.randint(1, 14)
        s = "".join(rng.choice(RICH) for _ in range(n))
        k = rng.randint(1, 4)
        cuts = sorted(rng.randint(0, n) for _ in range(k - 1))
        pts = [0] + cuts + [n]
        cases.append((rng.choice("PPPSH"), [("A", s[pts[i]:pts[i + 1]]) for i in range(k)]))
    for _ in range(chk.n(1500, 15000)):
        n = rng.randint(1, 8)
        s = "".join(rng.choice(EXOTIC) if rng.random() < 0.4 else rng.choice(RICH) for _ in range(n))
        k = rng.randint(1, 3)
        cuts = sorted(rng.randint(0, n) for _ in range(k - 1))
        pts = [0] + cuts + [n]
        cases.append((rng.choice("PPPSH"), [("A", s[pts[i]:pts[i + 1]]) for i in range(k)]))
        chk.count("alphabet", "with Unicode blanks / line separators")
    # appends interleaved with inline children (Span with its own text)
    for _ in range(chk.n(1500, 15000)):
        ops = []
        for i in range(rng.randint(2, 5)):
            if rng.random() < 0.35:
                ops.append(("E", i + 1, "".join(rng.choice("ab \t") for _ in range(rng.randint(0, 3)))))
            else:
                ops.append(("A", "".join(rng.choice(["a", "b", " ", " ", "\t", "\n", "é"]) for _ in range(rng.randint(0, 5)))))
        cases.append(("P", ops))

    reqs = []
    for cls, ops in cases:
        whole = "".join(op[1] if op[0] == "A" else op[2] for op in ops)
        has_el = any(op[0] == "E" for op in ops)
        key = (cls, tuple(ops))
        chk.case(key, nontrivial=nontrivial(whole), sample={"class": cls, "ops": ops} if len(ops) > 1 and nontrivial(whole) else None)
        chk.count("class", cls)
        chk.count("pieces", len(ops))
        case = {"class": cls, "ops": [list(o) for o in ops]}
        try:
            first = ops[0]
            if cls == "P":
                e = Paragraph(first[1]) if first[0] == "A" else Paragraph()
            elif cls == "S":
                e = Span(first[1])
            else:
                e = Header(1, first[1])
            rest = ops[1:] if first[0] == "A" else ops
            for op in rest:
                if op[0] == "A":
                    e.append(op[1])
                else:
                    e.append(Span(op[2], style=str(op[1])))
            live = e.inner_text
            node = lx(e)
            e2 = Element.from_tag(e.serialize())
            fresh = e2.inner_text
        except Exception as ex:  # noqa: BLE001
            chk.fail({**case, "exception": repr(ex)}, "building the element raised")
            continue
        # oracle 1: text round trip (live, re-parsed, independent projection)
        if live != whole or fresh != whole or plain(node) != whole:
            chk.fail({**case, "expected": whole, "inner_text": live, "reparsed": fresh, "lxml_projection": plain(node)},
                     "the element does not report exactly the string it was built from")
            continue
        # oracle 2: ODF white-space normal form (consumer reads the same string); '\r' is outside the alphabet
        if "\r" not in whole and not has_el:
            got = consumer(node)
            if got != whole:
                chk.fail({**case, "expected": whole, "consumer_reads": got, "xml": e.serialize()},
                         "the XML is not in ODF white-space normal form: a consumer reads another string")
                continue
        # correspondence with the Lean model: same node list, same text, same consumer reading
        line = "ws seq " + " ".join(("A" + enc_str(op[1])) if op[0] == "A" else f"E{op[1]}:{enc_str(op[2])}" for op in ops)
        expect = "ok " + items_of(node) + " | " + enc_str(plain(node)) + " | " + enc_str(consumer(node))
        reqs.append((line, expect, case))

    answers = core.run_driver([q for q, _, _ in reqs])
    for (q, exp, case), ans in zip(reqs, answers):
        if any(op[0] == "E" for op in case["ops"]):
            # inline children are opaque in the model (their own markup is not modelled): node list and text only
            exp = exp.rsplit(" | ", 1)[0]
            ans = ans.rsplit(" | ", 1)[0]
        if exp != ans:
            chk.disagree({**case, "line": q}, f"impl {exp!r} != model {ans!r}")


def replay(obj: dict) -> int:
    print(obj)
    return 0
