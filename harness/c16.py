"""C16 — search and replace act on the text exactly as the regular expression says.

impl: Element.replace (count / replace / formatted), search, search_first, search_all, match,
text_at on generated inline layouts (nested spans and links, text:s / tab / line-break), called on
the paragraph / heading and on inner spans / links (which have a tail); besides the fixed pattern family, patterns derived
from the layout (first / last word of one of its text nodes, anchored) so that a replacement lands at the edge of a container.
oracle (lxml + re only): per-text-node finditer / sub over the token stream, start tags before and
after, own-text projection; for formatted=True every rebuilt container (paragraph / heading / span hosting a match)
is compared with a freshly created Paragraph / Header / Span of its resulting text and read back with the ODF white-space rules.  model: OdfModel/Para/Replace.lean with `re` as the matcher."""
from __future__ import annotations

import re

import core
import paratok as pt
from core import enc_str

PATTERNS = ["a", "b", "ab", "a+", "[ab]+", "b|c", "ab?", " ", "a b", "^a", "b$", r"\w+", "x", "zz", "(a)(b)", "a.", r"\s", "[^ ]+", "a{2}", "é", "^ ?a", r"\bb",
            "a$|b", "(?<=a)b", "c ", r"\s+", r"^\w+", r"\w+$", r"^\S+|\S+$", "^[abc]+", "[ab]+$"]
NEWS = ["", "X", "yy", "a", "b a", "-", "é"]
# "Python regular expression syntax applies": the replacement is a template of re.sub (whole-match reference, escaped backslash, escapes)
NEWS_TEMPLATE = [r"[\g<0>]", r"\g<0>\g<0>", r"a\\b", r"x\ny", r"<\g<0>", r"\\"]
NEWS_FMT = ["p  q", "x\ty", "l1\nl2", "  lead", "trail  ", "u \t\n v", "one two", "Z", "", " ", " w", "w "]
# replacements that leave at most single blanks (at an edge of the replaced match): the encoding of the result then depends on WHERE the match was
NEWS_EDGE = ["", " ", " w", "w ", " w ", "u v"]
FORMATTABLE = (pt.T + "p", pt.T + "h", pt.T + "span")
WS_KINDS = (pt.K_S, pt.K_TAB, pt.K_LB)


def snapshot(el, labels, other):
    return pt.tokens(pt.lxml_of(el), labels, other)


def own_text(toks) -> str:
    return pt.plain_main(pt.unhide(toks))


def skeleton(toks):
    return [(t[1], t[2]) for t in toks if t[0] == "O"]


def outside_text(p, el, labels, other):
    """characters of the paragraph outside the element `el` (a descendant of p), in order"""
    lp, le = pt.lxml_of(p), pt.lxml_of(el)
    if lp is le:
        return ""
    tp = pt.tokens(lp, labels, other)
    k = [e for e in lp.iter() if isinstance(e.tag, str)].index(le)
    idx = [i for i, t in enumerate(tp) if t[0] == "O"][k]
    depth = 0
    for j in range(idx, len(tp)):
        if tp[j][0] == "O":
            depth += 1
        elif tp[j][0] == "C":
            depth -= 1
            if depth == 0:
                break
    return own_text(tp[:idx]) + "\0" + own_text(tp[j + 1 :])


def formattable_nodes(toks):
    """text nodes hosted by a paragraph / heading / span (their text, or the tail of one of their children)"""
    out = []
    stack = []
    for t in toks:
        if t[0] == "O":
            stack.append(t[1])
        elif t[0] == "C":
            stack.pop()
        elif stack and stack[-1] in (0, 4, 17):
            out.append(t[3])
    return out


def targets(p):
    """the paragraph and up to two inner elements with content (spans / links), each (name, element)"""
    out = [("paragraph", p)]
    inner = [e for e in p.get_elements("descendant::text:span | descendant::text:a")]
    for i, e in enumerate(inner[:2]):
        out.append((f"inner{i}", e))
    return out


T_NS = "{urn:oasis:names:tc:opendocument:xmlns:text:1.0}"


def ws_items(h):
    """the children of a container that holds only text and white-space elements, in the notation of the `ws` driver
    (T<code points> / S<n> / TAB / LB); None when it holds anything else"""
    out = []
    if h.text:
        out.append(("T", h.text))
    for ch in h:
        if ch.tag == T_NS + "s":
            out.append(("S", int(ch.get(T_NS + "c", "1"))))
        elif ch.tag == T_NS + "tab":
            out.append(("TAB", None))
        elif ch.tag == T_NS + "line-break":
            out.append(("LB", None))
        else:
            return None
        if ch.tail:
            out.append(("T", ch.tail))
    return out


def enc_ws_items(items) -> str:
    return " ".join(("T" + enc_str(v)) if k == "T" else (f"S{v}" if k == "S" else k) for k, v in items)


def rebuilt_hosts(le, rx):
    """lxml elements under `le` (itself included, its tail excluded) that are a paragraph / heading / span and host a text node (their text, or
    the tail of one of their children) in which the pattern matches: the containers replace(formatted=True) has to re-encode"""
    out = []
    for e in le.iter():
        if not isinstance(e.tag, str) or e.tag not in FORMATTABLE:
            continue
        hosted = [e.text] + [ch.tail for ch in e]
        if any(x and rx.search(x) for x in hosted):
            out.append(e)
    return out


def derived_pattern(rng, nodes):
    """a pattern built from the layout: the first / last word of one of its text nodes, anchored at the node's edge or at a word boundary
    (never matches the empty string)"""
    words = [(n, re.findall(r"\S+", n)) for n in nodes]
    words = [(n, w) for n, w in words if w]
    if not words:
        return None
    _, ws = rng.choice(words)
    first, last = re.escape(ws[0]), re.escape(ws[-1])
    return rng.choice(["^%s" % first, "%s$" % last, "^%s|%s$" % (first, last), "^ ?%s" % first, "%s ?$" % last, r"^%s\b" % first, r"\b%s$" % last,
                       "(?<= )%s$" % last, "^%s(?= )" % first, "^%s | %s$" % (first, last)])


def show(toks):
    """readable, JSON-serialisable rendering of the inside of a container"""
    out = []
    skip = False
    for t in toks:
        if t[0] == "T":
            out.append(t[3])
        elif t[0] == "O":
            out.append({pt.K_S: "<s:%s>" % t[2], pt.K_TAB: "<tab>", pt.K_LB: "<line-break>"}.get(t[1], "<el kind=%s>" % t[1]))
            skip = t[1] in WS_KINDS
        elif skip:
            skip = False
        else:
            out.append("</>")
    return out


def inside(toks):
    """tokens between the start and end tag of a container, without the empty text nodes lxml keeps"""
    return [t for t in toks[1:-1] if not (t[0] == "T" and t[3] == "")]


def enc_spans(toks, rx):
    nodes = [t for t in toks if t[0] == "T"]
    if not nodes:
        return "_"
    return ";".join((",".join(f"{m.start()}-{m.end()}" for m in rx.finditer(t[3])) or "-") for t in nodes)


def run(chk: core.Check) -> None:
    from odfdo import Element, Header, Paragraph, Span

    fresh_of = {pt.T + "p": lambda s_: Paragraph(s_), pt.T + "h": lambda s_: Header(1, s_), pt.T + "span": lambda s_: Span(s_)}
    rng = chk.rng
    chk.rule = (
        "layouts: random inline forests (text, nested spans / links, text:s, tab, line-break; a fifth with raw white-space runs; one in eight is a text:h) x targets "
        "{the paragraph / heading, inner spans / links with a tail} x 31 patterns (literals, classes, repetitions, alternations, anchors, look-behind, groups; none "
        "matches the empty string) + one pattern derived from the layout (first / last word of one of its text nodes, anchored at the node's edge) x "
        "replacement strings (plain; templates of re.sub with a reference to the whole match, an escaped backslash, an escape sequence; with blanks, tabs, newlines for formatted=True; for the derived pattern mostly '', ' ', ' w', 'w ' so that single blanks end "
        "up at the edge of a paragraph / heading / span). formatted=True: every container hosting a match is compared with a fresh Paragraph / Header / Span of "
        "its resulting text (when it holds text and text:s only), read back with the ODF white-space rules, and must not begin / end with a raw blank. non-trivial = more than one text node or a white-space element; distinct by "
        "(layout xml, target, pattern, replacement)"
    )
    reqs = []
    for _ in range(chk.n(300, 5000)):
        raw = rng.random() < 0.2
        pieces = pt.gen_pieces(rng, raw_ws=raw, rich=False)
        xml0 = pt.make_paragraph(pieces, "text:h" if rng.random() < 0.125 else "text:p").serialize()
        labels = pt.Labels()
        other: dict = {}
        p0 = Element.from_tag(xml0)
        tnames = [n for n, _ in targets(p0)]
        t_par = snapshot(p0, labels, other)
        nontriv = len(pt.text_nodes(t_par)) > 1 or any(t[0] == "O" and t[1] in (1, 2, 3) for t in t_par)
        chk.count("layout", f"{min(len(pt.text_nodes(t_par)), 6)} text nodes" + ("/raw-ws" if raw else ""))
        pats = [(pat, False) for pat in rng.sample(PATTERNS, 4)]
        dpat = derived_pattern(rng, pt.text_nodes(t_par))
        if dpat is not None and all(dpat != q for q, _ in pats):
            pats.append((dpat, True))
        for pat, derived in pats:
            rx = re.compile(pat)
            chk.count("pattern", "derived from the layout" if derived else "fixed family")
            for tname in tnames:
                # ---------------- count + searches (no modification) --------------------------------
                p = Element.from_tag(xml0)
                el = dict(targets(p))[tname]
                t0 = snapshot(el, labels, other)
                nodes = pt.text_nodes(t0)
                case = {"xml": xml0, "target": tname, "pattern": pat}
                chk.case((xml0, tname, pat, "read"), nontrivial=nontriv, sample=case if nontriv else None)
                chk.count("target", tname.rstrip("01"))
                want_count = sum(len(list(rx.finditer(n))) for n in nodes)
                chk.count("matches", min(want_count, 5))
                try:
                    got_count = el.replace(pat)
                    own = own_text(t0)
                    res = {
                        "search": el.search(pat), "search_first": el.search_first(pat), "search_all": el.search_all(pat), "match": el.match(pat),
                    }
                    ta = [(s, e, el.text_at(s, e)) for s, e in [(0, None), (1, 3), (2, 2), (3, 1), (-2, 2), (0, 10**6), (len(own), None), (len(own) + 3, None)]]
                except Exception as e:  # noqa: BLE001
                    chk.fail({**case, "exception": repr(e), "clause": "raises"}, f"count / search raised {type(e).__name__}")
                    continue
                if snapshot(el, labels, other) != t0:
                    chk.fail({**case, "clause": "read-only"}, "counting / searching modified the element")
                    continue
                if got_count != want_count:
                    chk.fail({**case, "clause": "count", "want": want_count, "got": got_count}, "replace(pattern) does not report the number of matches within the text runs")
                    continue
                m1 = rx.search(own)
                want = {"search": m1.start() if m1 else None, "search_first": (m1.start(), m1.end()) if m1 else None,
                        "search_all": [(m.start(), m.end()) for m in rx.finditer(own)], "match": m1 is not None}
                if res != want:
                    tail = pt.lxml_of(el).tail
                    chk.fail({**case, "clause": "search-own-text", "own_text": own, "tail": tail, "want": {k: v for k, v in want.items() if res[k] != v},
                              "got": {k: v for k, v in res.items() if want[k] != v}}, "search results do not index the element's own text")
                    continue
                bad_ta = [(s, e, g) for s, e, g in ta if g != (own[max(s, 0):] if e is None else own[max(s, 0):max(e, max(s, 0))])]
                if bad_ta:
                    chk.fail({**case, "clause": "text_at", "own_text": own, "bad": bad_ta[:3]}, "text_at does not slice the element's own text")
                    continue
                spans_w = enc_spans(t0[1:-1], rx)
                reqs.append((f"rp count {spans_w}", f"ok {got_count}", case))
                for s_, e_, g_ in ta:
                    reqs.append((f"rp textat {s_} {'N' if e_ is None else e_} {enc_str(own)}", f"ok {enc_str(g_)}", {**case, "text_at": (s_, e_)}))
                # ---------------- replace -------------------------------------------------------------
                for new, formatted in [(rng.choice(NEWS), False), (rng.choice(NEWS_EDGE if derived and rng.random() < 0.7 else NEWS_FMT), True),
                                       (rng.choice(NEWS_TEMPLATE), rng.random() < 0.3)]:
                    p = Element.from_tag(xml0)
                    el = dict(targets(p))[tname]
                    t0 = snapshot(el, labels, other)
                    hosts = rebuilt_hosts(pt.lxml_of(el), rx) if formatted else []
                    hosts_before = [ws_items(h) for h in hosts]
                    out0 = outside_text(p, el, labels, other)
                    case = {"xml": xml0, "target": tname, "pattern": pat, "new": new, "formatted": formatted}
                    chk.case((xml0, tname, pat, new, formatted), nontrivial=nontriv)
                    try:
                        n = el.replace(pat, new, formatted=formatted)
                    except Exception as e:  # noqa: BLE001
                        chk.fail({**case, "exception": repr(e), "clause": "raises"}, f"replace raised {type(e).__name__}")
                        continue
                    t1 = snapshot(el, labels, other)
                    t1p = snapshot(p, labels, other)
                    if n != want_count:
                        chk.fail({**case, "clause": "count", "want": want_count, "got": n}, "replace(pattern, new) does not return the number of replacements")
                        continue
                    want_nodes = [rx.sub(new, x) for x in nodes]
                    # what the template stands for when it does not refer to the match (the model's replacement is a constant string)
                    const_new = None if "\\g" in new else re.sub("q", new, "q")
                    chk.count("replacement", "template with a reference to the match" if const_new is None else "template with escapes" if "\\" in new else "plain")
                    if not formatted:
                        got_nodes = pt.text_nodes(t1)
                        # lxml keeps "" text nodes: compare modulo empty nodes
                        if [x for x in got_nodes if x] != [x for x in want_nodes if x] or skeleton(t1) != skeleton(t0):
                            chk.fail({**case, "clause": "replace-changes-matches-only", "want": want_nodes, "got": got_nodes}, "replace changed something else than the matches (text runs or markup)")
                            continue
                        # the rest of the paragraph (outside the target) is untouched
                        if out0 != outside_text(p, el, labels, other):
                            chk.fail({**case, "clause": "neighbouring-text"}, "replace on an inner element changed text outside it")
                            continue
                        if const_new is not None:
                            reqs.append((f"rp replace {enc_str(const_new)} {spans_w} | {pt.enc_tokens(t0[1:-1])}", drop_empty("ok " + pt.enc_tokens(t1[1:-1])), case))
                        else:
                            # the template as CPython's re parses it: literal pieces and references to the whole match (OdfModel/Para/Replace.replaceAllT)
                            import re._parser as _sp

                            pieces = _sp.parse_template(new, rx)
                            if all(isinstance(x, str) or x == 0 for x in pieces):
                                tpl = ",".join("G" if x == 0 else enc_str(x) for x in pieces if x != "")
                                reqs.append((f"rp replacet {tpl} {spans_w} | {pt.enc_tokens(t0[1:-1])}", drop_empty("ok " + pt.enc_tokens(t1[1:-1])), case))
                                chk.count("replacement", "template sent to the model (replaceAllT)")
                    else:
                        # expected characters, white-space elements expanded, in order
                        it = iter(want_nodes)
                        want_raw = "".join(next(it) if t[0] == "T" else own_text([t]) for t in t0)
                        got_raw = own_text(t1)
                        if got_raw != want_raw:
                            chk.fail({**case, "clause": "formatted-text", "want": want_raw, "got": got_raw}, "replace(formatted=True): the resulting characters are not the substituted text")
                            continue
                        if n and not any(re.search(r"\t|\n|  ", x) for x in nodes):
                            bad = [x for x in formattable_nodes(t1) if re.search(r"\t|\n|  ", x)]
                            if bad:
                                chk.fail({**case, "clause": "formatted-encodes-white-space", "raw_nodes": bad}, "replace(formatted=True) left runs of blanks / tabs / newlines as raw characters in a rebuilt paragraph, heading or span")
                                continue
                        # every container hosting a match is encoded like a freshly created paragraph / heading / span
                        if not check_rebuilt(chk, case, hosts, fresh_of, labels, other):
                            continue
                        # correspondence of the rebuild itself with the Lean model (Para/Ws.appendPlainText on the existing content):
                        # text nodes after the substitution, white-space elements as they were, re-encoded by append_plain_text("")
                        for h, before in zip(hosts, hosts_before):
                            after = ws_items(h)
                            if before is None or after is None:
                                continue
                            sub = [(k, rx.sub(new, v) if k == "T" else v) for k, v in before]
                            sub = [(k, v) for k, v in sub if not (k == "T" and v == "")]
                            chk.count("rebuild vs model", "containers sent")
                            reqs.append(("ws rebuild " + enc_ws_items(sub), "ok " + enc_ws_items(after), {**case, "clause": "rebuild-model", "before_rebuild": [list(x) for x in sub]}))
                        if out0 != outside_text(p, el, labels, other):
                            chk.fail({**case, "clause": "neighbouring-text"}, "replace(formatted=True) on an inner element changed text outside it")
    answers = core.run_driver([q for q, _, _ in reqs])
    for (q, exp, case), ans in zip(reqs, answers):
        if q.startswith("ws rebuild "):
            got = ans.split(" | ")[0]
            if got.strip() != exp.strip():
                chk.disagree({**case, "line": q[:300]}, f"rebuilt container: impl {exp[:300]!r} != model of append_plain_text on the existing content {got[:300]!r}")
            continue
        if exp != drop_empty(ans):
            chk.disagree({**case, "line": q[:500]}, f"impl {exp[:300]!r} != model {ans[:300]!r}")


def check_rebuilt(chk, case, hosts, fresh_of, labels, other) -> bool:
    """formatted=True, after the replacement: each container in `hosts` (lxml elements, found before the replacement) must be encoded as a fresh
    container of its class would encode the same characters. Returns False after reporting a violation."""
    for k, h in enumerate(hosts):
        toks = pt.unhide(pt.tokens(h, labels, other))
        ins = inside(toks)
        chars = pt.plain_main(toks)
        kind = h.tag.rsplit("}", 1)[1]
        ws_only = all(t[1] in WS_KINDS for t in ins if t[0] == "O")
        edge = (chars[:1] == " " and chars[1:2] != " ", chars[-1:] == " " and chars[-2:-1] != " " and len(chars) > 1)
        chk.count("rebuilt container", kind + (", text / white-space elements only" if ws_only else ", with inner elements"))
        chk.count("rebuilt container: single blank at", {(False, False): "no edge", (True, False): "start", (False, True): "end", (True, True): "both edges"}[edge])
        info = {**case, "container": kind, "container_no": k, "chars": chars, "got": show(ins)}
        # (a) a fresh container never begins or ends with a raw blank (an ODF consumer drops it)
        if ins and ((ins[0][0] == "T" and ins[0][3][:1] == " ") or (ins[-1][0] == "T" and ins[-1][3][-1:] == " ")):
            chk.fail({**info, "clause": "formatted-edge-blank"},
                     "replace(formatted=True) left a raw blank at the start / end of a rebuilt paragraph, heading or span (a fresh one encodes it as text:s)")
            return False
        if not ws_only:
            continue
        # (b) read back with the ODF white-space rules, the container gives its characters (as any fresh container does)
        back = pt.consumer(toks)
        if back != chars:
            chk.fail({**info, "clause": "formatted-normal-form", "consumer_reads": back},
                     "replace(formatted=True): an ODF consumer does not read back the characters of the rebuilt paragraph, heading or span")
            return False
        # (c) same encoding as a freshly created container of these characters (blanks only: next to a tab / line break the library has two spellings)
        if "\t" not in chars and "\n" not in chars:
            want = inside(pt.unhide(pt.tokens(pt.lxml_of(fresh_of[h.tag](chars)), labels, other)))
            if ins != want:
                chk.fail({**info, "clause": "formatted-as-fresh", "want": show(want)},
                         "replace(formatted=True): the rebuilt container is not encoded like a freshly created paragraph / heading / span of the same text")
                return False
    return True


def drop_empty(line: str) -> str:
    return " ".join(w for w in line.split(" ") if not (w.startswith("T") and w.endswith(":e")))


def replay(obj: dict) -> int:
    print(obj)
    return 0
