"""C10 — a clone is equal at birth and independent for life.

impl: clones of tables, rows, cells, elements (after the histories of C01), of XML parts, containers
and whole documents (after the histories of C03), then two operation sequences interleaved on the
original and on the clone.  observed: the serialisation and the reads of the untouched twin after
every operation on the other; absolute XPath queries from a clone (nothing of another copy must be
visible); each twin against its own reference (plain grid / ledger) at the end.
model: OdfModel/Package.lean (Doc.clone) follows the document histories."""
from __future__ import annotations

import io
import shutil
import tempfile
import zipfile
from pathlib import Path

import core
import heapwalk
import pkg
import tables as T

HP: list = []          # finished heap traces (requests for the `hp` model), run at the end


def hp_done(chk, tr) -> None:
    tr.finish()
    HP.append(tr)
    chk.count("heap trace", f"cells allocated: {min(tr.n_alloc // 10 * 10, 200)}+")
    chk.count("heap trace writes", str(min(tr.n_write, 30)))
    for k, owner, first_owner, path, first_path, tname in tr.shared[:3]:
        chk.disagree({**tr.case, "shared_object": tname, "reached_from_twin": owner, "as": path, "owned_by_twin": first_owner, "there": first_path},
                     f"a mutable {tname} is reachable from two twins ({first_path} and {path}): not a heap of the model (OdfModel/Heap: every object has one owner)")


# ---- tables, rows, cells, elements ---------------------------------------------------------------------


def table_fingerprint(t):
    return (t.serialize(), tuple(t.size), repr(t.get_values()))


def own_count(e) -> int:
    return sum(1 for _ in e._Element__element.iter())


def isolation_problem(e) -> str | None:
    """an absolute query from a detached copy must see its own tree only"""
    own = own_count(e)
    seen = len(e.get_elements("//*"))
    # the copy hangs under a private root element that carries the namespaces
    if seen not in (own, own + 1):
        return f"an absolute XPath query from the copy sees {seen} elements, its own tree has {own}"
    return None


def table_part(chk, rng):
    for hno in range(chk.n(120, 1500)):
        h = T.gen_history(rng, max_ops=5, reads=False)
        t = T.build_initial(h)
        g = T.initial_grid(h)
        case0 = {"cols": h["cols"], "rows": h["rows"], "how": h["how"]}
        ok = True
        for op in h["ops"]:
            try:
                T.impl_apply(t, op)
                T.ref_apply(g, op)
            except Exception:  # noqa: BLE001
                ok = False
                break
        if not ok or (g.rows and g.ncols == 0):
            continue
        kind = rng.choice(["table", "table", "row", "cell", "table+table"])
        case = {**case0, "ops": h["ops"], "cloned": kind}
        chk.case((repr(case0), repr(h["ops"]), kind), nontrivial=True, sample=case)
        chk.count("clone of", kind)
        try:
            if kind in ("table", "table+table"):
                before = table_fingerprint(t)
                tr = heapwalk.HeapTrace({**case, "model": "heap"})
                tr.scan(0, t, 0, "history before the clone")
                c = t.clone
                tr.step({0: t}, 0, "clone")
                tr.scan(1, c, 1, "birth")
                if table_fingerprint(t) != before:
                    chk.fail({**case, "clause": "clone-modifies-original"}, "cloning a table modified the original")
                    continue
                if table_fingerprint(c)[1:] != before[1:] or c.serialize() != t.serialize():
                    chk.fail({**case, "clause": "equal-at-birth"}, "the clone of a table differs from the table")
                    continue
                copies = [c]
                if kind == "table+table":
                    copies.append(c.clone)
                for cp in copies:
                    p = isolation_problem(cp)
                    if p:
                        chk.fail({**case, "clause": "isolation"}, "clone of a table: " + p)
                        break
                else:
                    tr.step({0: t}, 0, "reads of the original")
                    tr.step({1: c}, 1, "reads of the clone")
                    interleave_tables(chk, rng, t, c, g, case, tr)
                hp_done(chk, tr)
            elif kind == "row":
                if not g.rows:
                    continue
                y = rng.randrange(len(g.rows))
                tr = heapwalk.HeapTrace({**case, "model": "heap", "row": y})
                tr.scan(0, t, 0, "history before the copy")
                r = t.get_row(y)
                tr.step({0: t}, 0, "get_row")
                tr.scan(1, r, 1, "birth of the copy")
                r2 = r.clone
                tr.step({0: t, 1: r}, 1, "clone of the copy")
                tr.scan(2, r2, 2, "birth of the clone")
                for cp in (r, r2):
                    p = isolation_problem(cp)
                    if p:
                        chk.fail({**case, "clause": "isolation", "row": y}, "row copy: " + p)
                        break
                else:
                    if r2.serialize() != r.serialize() or r2.get_values() != r.get_values() or r2.y != r.y:
                        chk.fail({**case, "clause": "equal-at-birth", "row": y}, "the clone of a row differs from the row")
                        continue
                    snap = (r.serialize(), r.get_values(), t.serialize())
                    trio = {0: t, 1: r, 2: r2}
                    tr.step({0: t}, 0, "reads"); tr.step({1: r}, 1, "reads"); tr.step({2: r2}, 2, "reads")
                    r2.set_value(0, "ZZ")
                    r2.append_cell(T.mk_cell(("a", None)))
                    tr.step(trio, 2, "set_value + append_cell on the clone of the row")
                    if (r.serialize(), r.get_values(), t.serialize()) != snap:
                        chk.fail({**case, "clause": "independence", "row": y}, "editing the clone of a row changed the row or its table")
                        continue
                    snap2 = (r2.serialize(), r2.get_values())
                    tr.step({0: t}, 0, "reads"); tr.step({1: r}, 1, "reads"); tr.step({2: r2}, 2, "reads")
                    r.set_value(0, "YY")
                    r.insert_cell(0, T.mk_cell(("b", None)))
                    tr.step(trio, 1, "set_value + insert_cell on the row copy")
                    hp_done(chk, tr)
                    if (r2.serialize(), r2.get_values()) != snap2:
                        chk.fail({**case, "clause": "independence", "row": y}, "editing a row changed its clone")
                        continue
                    # a clone that moves into another table must not keep a hold on the first one (shared position maps)
                    from odfdo import Table

                    live_rows = t.get_elements("table:table-row")
                    r3 = rng.choice([lambda: t.get_rows()[y], lambda: live_rows[rng.randrange(len(live_rows))].clone, lambda: t.get_row(y).clone])()
                    other = Table("Other")
                    other.append_row(r3, clone=False)
                    snap3 = table_fingerprint(t)
                    tr = heapwalk.HeapTrace({**case, "model": "heap", "row": y, "scenario": "clone moved into another table, then repeated"})
                    tr.scan(0, t, 0, "first table")
                    tr.scan(1, [other, r3], 1, "the other table with the row clone in it")
                    r3.repeated = rng.choice([2, 3, 5])
                    other.append_row(T.mk_row([("c", None)]))
                    r3.set_value(0, "WW")
                    tr.step({0: t, 1: [other, r3]}, 1, "repeated, append_row, set_value in the other table")
                    hp_done(chk, tr)
                    if table_fingerprint(t) != snap3:
                        chk.fail({**case, "clause": "independence", "row": y, "scenario": "clone moved into another table, then repeated"},
                                 "operations on a row clone living in another table are observable on the table it was cloned from")
                        continue
                    try:
                        probe = [t.get_row(i).get_values() for i in range(len(g.rows))]
                        hgt = t.height
                    except Exception as ex:  # noqa: BLE001
                        chk.fail({**case, "clause": "independence", "row": y, "exception": repr(ex)}, "reading the first table after moving a row clone elsewhere raised")
                        continue
                    if hgt != len(g.rows):
                        chk.fail({**case, "clause": "independence", "row": y, "height": hgt, "expected": len(g.rows)},
                                 "the height of the table changed after operations on a row clone living in another table")
            else:
                if not g.rows or not g.ncols:
                    continue
                y = rng.randrange(len(g.rows)); x = rng.randrange(g.ncols)
                tr = heapwalk.HeapTrace({**case, "model": "heap", "cell": (x, y)})
                tr.scan(0, t, 0, "history before the copy")
                cell = t.get_cell((x, y))
                tr.step({0: t}, 0, "get_cell")
                tr.scan(1, cell, 1, "birth of the copy")
                c2 = cell.clone
                tr.step({0: t, 1: cell}, 1, "clone of the copy")
                tr.scan(2, c2, 2, "birth of the clone")
                if c2.serialize() != cell.serialize() or (c2.x, c2.y) != (cell.x, cell.y):
                    chk.fail({**case, "clause": "equal-at-birth", "cell": (x, y)}, "the clone of a cell differs from the cell (content or coordinates)")
                    continue
                snap = (cell.serialize(), t.serialize())
                tr.step({0: t}, 0, "reads"); tr.step({1: cell}, 1, "reads")
                c2.set_value("ZZ")
                tr.step({0: t, 1: cell, 2: c2}, 2, "set_value on the clone of the cell")
                hp_done(chk, tr)
                if (cell.serialize(), t.serialize()) != snap:
                    chk.fail({**case, "clause": "independence", "cell": (x, y)}, "editing the clone of a cell changed the cell or its table")
        except Exception as e:  # noqa: BLE001
            chk.fail({**case, "exception": repr(e), "clause": "clone-raises"}, f"cloning / using the clone raised {type(e).__name__}")


def interleave_tables(chk, rng, a, b, g, case, tr=None):
    """two operation sequences, interleaved on the table and on its clone; after each one the other twin must not move"""
    ga, gb = g.clone(), g.clone()
    steps = []
    for _ in range(rng.randrange(2, 7)):
        side = rng.choice("ab")
        twin, grid, other = (a, ga, b) if side == "a" else (b, gb, a)
        op = T.gen_op(rng, grid)
        steps.append((side, op))
        snap = table_fingerprint(other)
        twins, me = {0: a, 1: b}, 0 if side == "a" else 1
        if tr:
            tr.step(twins, 1 - me, "reads of the other twin")
        try:
            T.impl_apply(twin, op)
            T.ref_apply(grid, op)
        except Exception as e:  # noqa: BLE001
            chk.fail({**case, "after_clone": steps, "exception": repr(e), "clause": "twin-op-raises"}, f"an operation on {'the original' if side == 'a' else 'the clone'} raised {type(e).__name__}")
            return
        if tr:
            tr.step(twins, me, f"{op['op']} (operation {len(steps)} after the clone)")
        now = table_fingerprint(other)
        if tr:
            tr.step(twins, 1 - me, "reads of the other twin")
        if now != snap:
            chk.fail({**case, "after_clone": [(s, o) for s, o in steps], "clause": "independence"},
                     f"an operation on {'the original' if side == 'a' else 'the clone'} is observable on the other one")
            return
        if grid.rows and grid.ncols == 0:
            return
        chk.count("table op after clone", op["op"])
    for name, twin, grid in (("original", a, ga), ("clone", b, gb)):
        try:
            bad = T.check_reads(twin, grid, rng)
        except Exception as e:  # noqa: BLE001
            chk.fail({**case, "after_clone": steps, "exception": repr(e), "clause": "twin-reads"}, f"reading the {name} raised {type(e).__name__}")
            return
        if bad:
            chk.fail({**case, "after_clone": steps, "clause": "twin-agrees-with-its-own-history", "read": bad[0][0], "got": bad[0][1], "expected": bad[0][2]},
                     f"the {name} no longer agrees with its own history: {bad[0][0]}")
            return


# ---- documents, containers, parts -------------------------------------------------------------------------


def semantic_view(doc, src_files: dict) -> dict:
    """name -> canonical bytes of what the document holds (parsed parts through their serialisation, then the parts
    dict, then what is still only in the source): read through the private fields, no side effect"""
    out = {}
    parts = getattr(doc.container, "_Container__parts")
    for n, b in src_files.items():
        out[n] = pkg.canon(n, b)
    for n, b in parts.items():
        if b is None:
            out.pop(n, None)
        else:
            out[n] = pkg.canon(n, b)
    for n, part in getattr(doc, "_Document__xmlparts", {}).items():
        if part is not None:
            out[n] = pkg.canon(n, part.serialize())
    return out


def document_part(chk, rng, tmp: Path, mirror):
    from odfdo import Document

    for h in range(chk.n(110, 1500)):
        kind = rng.choice(["template", "path", "path", "bytesio", "folder"])
        try:
            s = pkg.open_subject(rng, kind, tmp)
        except Exception as e:  # noqa: BLE001
            chk.fail({"origin": kind, "exception": repr(e), "clause": "open"}, f"opening the source raised {type(e).__name__}")
            continue
        mirror.new(s)
        src_files = dict(s.files) if s.origin in ("path", "folder") else {}
        ok = True
        for i in range(rng.randrange(0, 6)):
            op = pkg.gen_op(rng, s)
            try:
                res = pkg.apply_op(s, op, tmp)
            except ValueError as e:
                if op[0] == "del_part" and "mandatory" in str(e):
                    s.log[-1] = s.log[-1] + ["refused"]
                    continue
                ok = False
                break
            except Exception:  # noqa: BLE001
                ok = False
                break
            if res == "NOOP":
                continue
            if res:
                ok = False
                break
            mirror.after_op(s, op)
        if not ok:
            continue
        case = {"origin": s.name, "history": list(s.log)}
        chk.case((s.name, repr(s.log)), nontrivial=True, sample=case)
        chk.count("clone of", f"document ({s.origin})")
        try:
            v0 = semantic_view(s.doc, src_files)
            tr = heapwalk.HeapTrace({**case, "model": "heap"}) if h < chk.n(60, 400) else None
            if tr:
                tr.scan(0, s.doc, 0, "history before the clone")
            clone = s.doc.clone
            if tr:
                tr.step({0: s.doc}, 0, "clone")
                tr.scan(1, clone, 1, "birth")
            v1 = semantic_view(s.doc, src_files)
            vc = semantic_view(clone, {})
            if tr:
                tr.step({0: s.doc}, 0, "view"); tr.step({1: clone}, 1, "view")
        except Exception as e:  # noqa: BLE001
            chk.fail({**case, "exception": repr(e), "clause": "clone-raises"}, f"Document.clone raised {type(e).__name__}")
            continue
        if v1 != v0:
            bad = sorted(n for n in set(v0) | set(v1) if v0.get(n) != v1.get(n))
            chk.fail({**case, "clause": "clone-modifies-original", "parts": bad[:4]}, "cloning the document changed what the original holds")
            continue
        if vc != v0:
            bad = sorted(n for n in set(v0) | set(vc) if v0.get(n) != vc.get(n))
            chk.fail({**case, "clause": "equal-at-birth", "parts": bad[:4]}, "the clone does not hold the same document as the original")
            continue
        # the model: clone into a second slot
        orig = s
        twin = pkg.Subject(clone, dict(s.files), "bytesio", s.name + " (clone)")
        twin.log = list(s.log) + [["clone"]]
        for path_, part_ in getattr(s.doc, "_Document__xmlparts", {}).items():
            if part_ is not None:
                twin.files[path_] = part_.serialize()
        twin.last_added = getattr(s, "last_added", None)
        mirror.slots += 1
        mirror.send(orig, f"clone {mirror.slots}", "ok")
        twin.slot = mirror.slots
        twin.known_parsed = {}
        # XML part and container clones of the original
        try:
            part = s.doc.get_part("content")
            mirror.sync_xml(s)
            pc = part.clone
            if tr:
                tr.step({0: s.doc}, 0, "get_part + clone of the part")
                tr.scan(2, pc, 2, "birth of the part clone")
            if pkg.canon("content.xml", pc.serialize()) != pkg.canon("content.xml", part.serialize()):
                chk.fail({**case, "clause": "equal-at-birth", "object": "XmlPart"}, "the clone of an XML part serialises differently")
                continue
            snap = part.serialize()
            if tr:
                tr.step({0: s.doc}, 0, "serialize"); tr.step({2: pc}, 2, "serialize")
            pc.root._Element__element.set("{urn:verif}m", "1")
            if tr:
                tr.step({0: s.doc, 1: clone, 2: pc}, 2, "edit of the part clone")
            if part.serialize() != snap:
                chk.fail({**case, "clause": "independence", "object": "XmlPart"}, "editing the clone of an XML part changed the part")
                continue
        except Exception as e:  # noqa: BLE001
            chk.fail({**case, "exception": repr(e), "clause": "clone-raises", "object": "XmlPart"}, f"XmlPart.clone raised {type(e).__name__}")
            continue
        # ---- interleaving -----------------------------------------------------------------------------
        srcs = {id(orig): src_files, id(twin): {}}
        steps = []
        failed = False
        for i in range(rng.randrange(2, 7)):
            side, other = (orig, twin) if rng.random() < 0.5 else (twin, orig)
            op = pkg.gen_op(rng, side)
            steps.append(("original" if side is orig else "clone", list(op)))
            snap = semantic_view(other.doc, srcs[id(other)])
            if tr:          # (the view serialises the parsed parts of the other twin: the harness's own read of it)
                tr.step({(1 if side is orig else 0): other.doc}, 1 if side is orig else 0, "view of the other twin")
            try:
                res = pkg.apply_op(side, op, tmp)
            except ValueError as e:
                if op[0] == "del_part" and "mandatory" in str(e):
                    continue
                chk.fail({**case, "after_clone": steps, "exception": repr(e), "clause": "twin-op-raises"}, f"{op[0]} on the {'original' if side is orig else 'clone'} raised {type(e).__name__}")
                failed = True
                break
            except Exception as e:  # noqa: BLE001
                chk.fail({**case, "after_clone": steps, "exception": repr(e), "clause": "twin-op-raises"}, f"{op[0]} on the {'original' if side is orig else 'clone'} raised {type(e).__name__}")
                failed = True
                break
            if res == "NOOP":
                continue
            if res:
                chk.fail({**case, "after_clone": steps, "clause": "read"}, res)
                failed = True
                break
            mirror.after_op(side, op)
            if tr:
                tr.step({0: orig.doc, 1: twin.doc}, 0 if side is orig else 1, f"{op[0]} (operation {len(steps)} after the clone)")
            now = semantic_view(other.doc, srcs[id(other)])
            if tr:
                tr.step({(1 if side is orig else 0): other.doc}, 1 if side is orig else 0, "view of the other twin")
            if now != snap:
                bad = sorted(n for n in set(snap) | set(now) if snap.get(n) != now.get(n))
                chk.fail({**case, "after_clone": steps, "clause": "independence", "parts": bad[:4]},
                         f"an operation on the {'original' if side is orig else 'clone'} is observable on the other one")
                failed = True
                break
            chk.count("document op after clone", op[0])
        if failed:
            continue
        if tr:
            hp_done(chk, tr)
        # ---- each twin saves what its own history says ----------------------------------------------------
        import c03

        for name, sub in (("original", orig), ("clone", twin)):
            other = twin if sub is orig else orig
            try:
                exp = c03.expectation(sub)
                snap = semantic_view(other.doc, srcs[id(other)])
                data = pkg.save_zip_bytes(sub.doc)
            except Exception as e:  # noqa: BLE001
                chk.fail({**case, "after_clone": steps, "exception": repr(e), "clause": "twin-save-raises"}, f"saving the {name} raised {type(e).__name__}")
                break
            mirror.save(sub, data, sub.doc.container.default_manifest_rdf.encode("utf8"))
            if semantic_view(other.doc, srcs[id(other)]) != snap:
                chk.fail({**case, "after_clone": steps, "clause": "independence", "saved": name}, f"saving the {name} is observable on the other one")
                break
            _, got = pkg.read_zip(data)
            if not c03.compare(chk, {**case, "after_clone": steps, "twin": name}, exp, got):
                break
            if sub is twin:
                twin_names = sorted(got)
        else:
            # ---- the world around the clone moves on: the original gains a picture and is saved over the file it was opened from
            #      (or to its folder / a new path); the clone still lists, holds and saves what it held
            own = getattr(orig.doc.container, "path", None)
            try:
                parts0 = sorted(twin.doc.parts)
                snap = semantic_view(twin.doc, {})
                orig.doc.add_file(io.BytesIO(b"\x89PNG\r\n\x1a\n" + rng.randbytes(40)))
                where = "a new file"
                if own is not None and Path(own).is_file() and str(own).startswith(str(tmp)):
                    orig.doc.save()
                    where = "the file it was opened from"
                else:
                    orig.doc.save(tmp / f"moved-on-{rng.randrange(10**9)}.odt")
                chk.count("after the histories", f"original gains a picture and is saved to {where}")
                parts1 = sorted(twin.doc.parts)
                now = semantic_view(twin.doc, {})
                _, again = pkg.read_zip(pkg.save_zip_bytes(twin.doc))
            except Exception as e:  # noqa: BLE001
                chk.fail({**case, "after_clone": steps, "exception": repr(e), "clause": "moved-on"}, f"after the original was saved again, using the clone raised {type(e).__name__}")
                continue
            if parts1 != parts0 or now != snap or sorted(again) != twin_names:
                chk.fail({**case, "after_clone": steps, "clause": "independence", "saved_to": where,
                          "parts_gained": [n for n in parts1 if n not in parts0][:3], "package_gained": [n for n in sorted(again) if n not in twin_names][:3]},
                         "after the original gained a picture and was saved again, the clone lists / holds / saves something else than before")


def lockstep_part(chk, rng, tmp: Path):
    """'indistinguishable when taken': the SAME sequence of operations applied to the original and to its clone gives the same
    answers and the same saved document at every step (a clone that looks alike but carries other hidden state — flags, caches,
    counters — behaves differently later).  Documents with user-set metadata, clones of the document and of its XML parts."""
    import io

    from odfdo import Document, Paragraph

    def facts(doc):
        m = doc.meta
        return {"generator": m.generator, "title": m.title, "language": m.language, "editing_cycles": m.editing_cycles,
                "user_defined": repr(sorted(m.user_defined_metadata.items(), key=repr)), "paragraphs": len(doc.body.get_paragraphs()) if doc.body is not None else None}

    def saved(doc):
        b = io.BytesIO()
        doc.save(b)
        names, got = pkg.read_zip(b.getvalue())
        out = {n: pkg.canon(n, d) for n, d in got.items()}
        # pkg.canon neutralises the generator stamp of meta.xml: the stamp itself is compared through facts()
        return out

    OPS = {
        "set_generator_default": lambda d: d.meta.set_generator_default(),
        "save": lambda d: saved(d),
        "title": lambda d: setattr(d.meta, "title", "T2"),
        "append": lambda d: d.body.append(Paragraph("lockstep")),
        "user_meta": lambda d: d.meta.set_user_defined_metadata("k", 1),
        "styles": lambda d: len(d.get_styles()),
        "editing_cycles": lambda d: setattr(d.meta, "editing_cycles", (d.meta.editing_cycles or 0) + 1),
        "generator": lambda d: setattr(d.meta, "generator", "Other 2.0"),
    }
    for _ in range(chk.n(60, 800)):
        kind = rng.choice(["text", "spreadsheet", "presentation", "drawing", "sample"])
        try:
            if kind == "sample":
                src = rng.choice(sorted(p for p in (core.REPO / "tests" / "samples").glob("*.od?") if p.stat().st_size < 200_000))
                doc = Document(str(src))
                origin = src.name
            else:
                doc = Document(kind)
                origin = kind
        except Exception:  # noqa: BLE001
            continue
        before = []
        for k in rng.sample(["generator_user", "title", "user_meta", "read_body", "language"], rng.randrange(0, 4)):
            before.append(k)
            if k == "generator_user":
                doc.meta.generator = "MyApp 1.0"          # a generator set by the user is kept by save
            elif k == "title":
                doc.meta.title = "T1"
            elif k == "user_meta":
                doc.meta.set_user_defined_metadata("u", True)
            elif k == "read_body":
                doc.body  # noqa: B018
            else:
                doc.meta.language = "fr-FR"
        seq = [rng.choice(sorted(OPS)) for _k in range(rng.randint(1, 4))]
        case = {"origin": origin, "before_clone": before, "same_operations_on_both": seq}
        chk.case(("lockstep", origin, tuple(before), tuple(seq)), nontrivial=True, sample=case)
        chk.count("clone of", "document (lockstep)")
        try:
            clone = doc.clone
            twins = {"original": doc, "clone": clone}
            # the clone of the meta part alone, against the part it was cloned from
            mp, mc = doc.meta, doc.meta.clone
            if (mp.generator, mp.title) != (mc.generator, mc.title):
                chk.fail({**case, "clause": "equal-at-birth", "object": "Meta part"}, "the clone of the meta part reports other metadata")
                continue
            mc.set_generator_default()
            probe = doc.meta.clone
            probe2 = doc.clone.meta
            probe2.set_generator_default()
            if mc.generator != probe2.generator:
                chk.fail({**case, "clause": "indistinguishable", "object": "Meta part", "part_clone": mc.generator, "document_clone": probe2.generator},
                         "set_generator_default() on the clone of the meta part and on the meta part of a clone of the document give different generators")
                continue
            del probe
            bad = None
            if facts(doc) != facts(clone):
                bad = ("birth", facts(doc), facts(clone))
            for i, name in enumerate(seq):
                if bad:
                    break
                ra = OPS[name](doc)
                rb = OPS[name](clone)
                chk.count("lockstep op", name)
                if ra != rb:
                    keys = sorted(k for k in set(ra) | set(rb) if ra.get(k) != rb.get(k)) if isinstance(ra, dict) and isinstance(rb, dict) else None
                    bad = (f"answer of step {i} ({name})", keys or repr(ra)[:200], None if keys else repr(rb)[:200])
                elif facts(doc) != facts(clone):
                    bad = (f"after step {i} ({name})", facts(doc), facts(clone))
            if bad:
                chk.fail({**case, "clause": "indistinguishable", "where": bad[0], "original": bad[1], "clone": bad[2]},
                         "the same operations applied to the original and to its clone give different results: the clone was not indistinguishable when taken")
        except Exception as e:  # noqa: BLE001
            chk.fail({**case, "exception": repr(e), "clause": "lockstep-raises"}, f"lockstep run raised {type(e).__name__}")


def run(chk: core.Check) -> None:
    rng = chk.rng
    chk.rule = (
        "objects: tables after C01 histories (clone, clone of clone), rows and cells taken from them, whole documents after C03 histories from templates and "
        "samples opened by path / buffer / folder, their content part (XmlPart.clone); then 2..6 operations interleaved at random on the original and on the "
        "clone, the untouched twin observed after each one, both twins checked against their own reference at the end; lockstep: documents with user-set metadata "
        "(generator, title, language, user-defined), the SAME 1-4 operations (set_generator_default, save, metadata edits, appends, reads) applied to the original and "
        "to its clone, answers, metadata and saved packages compared after each step, and the clone of the meta part against the meta part of a document clone. "
        "distinct by (source, history, interleaving)"
    )
    tmp = Path(tempfile.mkdtemp(prefix="c10-", dir="/var/tmp"))
    mirror = pkg.Mirror()
    try:
        table_part(chk, rng)
        document_part(chk, rng, tmp, mirror)
        lockstep_part(chk, rng, tmp)
        mirror.run(chk)
        reqs = [r for tr in HP for r in tr.reqs]
        answers = core.run_driver([q for q, _, _ in reqs])
        for (q, exp, case), ans in zip(reqs, answers):
            if exp != ans:
                what = ("an operation on one twin changed or created a mutable object of another twin" if ans == "foreign"
                        else f"heap trace: impl {exp!r} != model {ans!r}")
                chk.disagree({**case, "line": q[:120]}, what)
    finally:
        shutil.rmtree(tmp, ignore_errors=True)


def replay(obj: dict) -> int:
    print(obj)
    return 0
