"""C04 — every saved file is a valid ODF package whose manifest matches its content.

impl: histories over {new from each template, open a sample (by path, from a buffer, from a folder),
add_file (path | file-like, repeated content), del_part, image frames, merge_styles_from, body / meta /
styles edits, reads of lazy parts, clone, save, reopen} on every document type.
observed (zipfile + lxml only): entry order and compression, duplicate names, manifest entries vs
the files of the package, root media type.  model: OdfModel/Package.lean (ledger refinement)."""
from __future__ import annotations

import io
import shutil
import tempfile
from pathlib import Path

import core
import pkg

C04_OPS = ["body", "meta", "styles", "add_file_path", "add_file_io", "add_same", "add_same_path", "del_part", "del_picture", "read_part", "frame", "merge", "parts", "read_xml", "del_rdf"]


def run(chk: core.Check) -> None:
    from odfdo import Document

    rng = chk.rng
    chk.rule = (
        "histories of 1..8 operations over {body / meta / styles edit, add_file by path or file-like (repeated content), del_part (any optional part, pictures, "
        "manifest.rdf), image frame, merge_styles_from, lazy reads, clone (continue on the clone), save + reopen (continue on the reopened document)} from the "
        "four templates and from samples opened by path / buffer / folder; every save is inspected. non-trivial = the history adds or deletes a part; distinct "
        "by (origin, history)"
    )
    tmp = Path(tempfile.mkdtemp(prefix="c04-", dir="/var/tmp"))
    mirror = pkg.Mirror()
    chk.mirror = mirror
    try:
        n_hist = chk.n(500, 6000)
        for h in range(n_hist):
            kind = rng.choice(["template", "template", "path", "bytesio", "folder"])
            try:
                s = pkg.open_subject(rng, kind, tmp)
            except Exception as e:  # noqa: BLE001
                chk.fail({"origin": kind, "exception": repr(e), "clause": "open"}, f"opening the source raised {type(e).__name__}")
                continue
            coherent = pkg.source_coherent(s.files)
            chk.count("origin", s.origin + ("" if coherent else " (source manifest incoherent: skipped)"))
            if not coherent:
                continue
            mirror.new(s)
            one_history(chk, rng, s, tmp)
            for f in tmp.glob("src-*"):
                if f.is_dir():
                    shutil.rmtree(f, ignore_errors=True)
                else:
                    f.unlink(missing_ok=True)
        mirror.run(chk)
    finally:
        shutil.rmtree(tmp, ignore_errors=True)


def check_saved(chk, s, data: bytes, case) -> bool:
    infos, files = pkg.read_zip(data)
    probs = pkg.manifest_problems(infos, files)
    if probs:
        chk.fail({**case, "clause": "package", "problems": probs[:4]}, "the saved package is not a valid ODF package: " + "; ".join(probs)[:300])
        return False
    return True


def one_history(chk, rng, s, tmp):
    from odfdo import Document

    steps = rng.randrange(1, 9)
    nontriv = False
    for i in range(steps):
        r = rng.random()
        case = {"origin": s.name, "history": s.log}
        if r < 0.12:
            s.log.append(["clone"])
            try:
                s.doc = s.doc.clone
            except Exception as e:  # noqa: BLE001
                chk.fail({**case, "exception": repr(e), "clause": "clone-raises"}, f"clone raised {type(e).__name__}")
                return
            chk.mirror.clone(s)
            continue
        if r < 0.27:
            s.log.append(["save+reopen"])
            try:
                data = pkg.save_zip_bytes(s.doc)
            except Exception as e:  # noqa: BLE001
                chk.fail({**case, "exception": repr(e), "clause": "save-raises"}, f"save raised {type(e).__name__}")
                return
            chk.case((s.name, repr(s.log)), nontrivial=nontriv, sample=case if nontriv else None)
            chk.mirror.save(s, data, s.doc.container.default_manifest_rdf.encode("utf8"))
            if not check_saved(chk, s, data, case):
                return
            s.doc = Document(io.BytesIO(data))
            chk.mirror.reopen(s)
            continue
        op = pkg.gen_op(rng, s)
        if op[0] not in C04_OPS and op[0] != "del_part":
            continue
        chk.count("operation", op[0])
        if op[0] in ("add_file_path", "add_file_io", "add_same", "add_same_path", "del_part", "frame", "merge"):
            nontriv = True
        try:
            res = pkg.apply_op(s, op, tmp)
        except ValueError as e:
            if op[0] == "del_part" and "mandatory" in str(e):
                chk.count("operation", "del_part refused (mandatory part)")
                s.log[-1] = s.log[-1] + ["refused"]
                continue
            chk.fail({**case, "op": list(op), "exception": repr(e), "clause": "operation-raises"}, f"{op[0]} raised {type(e).__name__}")
            return
        except Exception as e:  # noqa: BLE001
            chk.fail({**case, "op": list(op), "exception": repr(e), "clause": "operation-raises"}, f"{op[0]} raised {type(e).__name__}")
            return
        if res == "NOOP":
            continue
        if res:
            chk.fail({**case, "op": list(op), "clause": "read"}, res)
            return
        chk.mirror.after_op(s, op)
    case = {"origin": s.name, "history": s.log}
    chk.case((s.name, repr(s.log)), nontrivial=nontriv, sample=case if nontriv else None)
    try:
        data = pkg.save_zip_bytes(s.doc)
    except Exception as e:  # noqa: BLE001
        chk.fail({**case, "exception": repr(e), "clause": "save-raises"}, f"save raised {type(e).__name__}")
        return
    chk.mirror.save(s, data, s.doc.container.default_manifest_rdf.encode("utf8"))
    check_saved(chk, s, data, case)


def replay(obj: dict) -> int:
    print(obj)
    return 0
