"""C04 — every saved file is a valid ODF package whose manifest matches its content.

impl: histories over {new from each template, open a sample (by path, from a buffer, from a folder),
add_file (path | file-like, repeated content), del_part, image frames, merge_styles_from, body / meta /
styles edits, reads of lazy parts, clone, save, reopen} on every document type.
observed (zipfile + lxml only): entry order and compression, duplicate names, manifest entries vs
the files of the package, root media type.  model: OdfModel/Package.lean (ledger refinement).
A second family of histories (oracle only, not mirrored in the Lean model) merges styles from sources whose
styles reference packaged pictures (master-page images, draw:fill-image) interleaved with del_part of pictures,
add_file, clone, save + reopen and further merges."""
from __future__ import annotations

import io
import shutil
import tempfile
from pathlib import Path

import core
import pkg

C04_OPS = ["body", "meta", "styles", "add_file_path", "add_file_io", "add_same", "add_same_path", "del_part", "del_picture", "read_part", "frame", "merge", "parts", "read_xml", "del_rdf"]


def run(chk: core.Check) -> None:
    from odfdo import Document

    rng = chk.rng
    chk.rule = (
        "histories of 1..8 operations over {body / meta / styles edit, add_file by path or file-like (repeated content), del_part (any optional part, pictures, "
        "manifest.rdf), image frame, merge_styles_from, lazy reads, clone (continue on the clone), save + reopen (continue on the reopened document)} from the "
        "four templates and from samples opened by path / buffer / folder, with saves in the middle after which the same object goes on; the last save is a plain zip, a pretty-printed zip, or a folder (pretty or not) opened again and saved as a zip; every save is inspected. non-trivial = the history adds or deletes a part; distinct "
        "by (origin, history). picture-merge family (zipfile/lxml oracle only): histories of 2..9 operations over {merge_styles_from a source whose styles "
        "reference packaged pictures (samples with master-page images / draw:fill-image, opened by path or buffer; documents of each type built with add_file + "
        "DrawFillImage / an image frame in a master page, live or saved + reopened; 1..2 sources per history, source object reused or reopened), del_part of a "
        "picture (preferably one a source carries), add_file (also the bytes of a source picture), image frame, body / styles edit, plain template merge, "
        "get_parts, clone, save + reopen} on the same destinations; every save is inspected"
    )
    tmp = Path(tempfile.mkdtemp(prefix="c04-", dir="/var/tmp"))
    mirror = pkg.Mirror()
    chk.mirror = mirror
    try:
        n_hist = chk.n(500, 6000)
        for h in range(n_hist):
            kind = rng.choice(["template", "template", "path", "bytesio", "folder"])
            try:
                s = pkg.open_subject(rng, kind, tmp)
            except Exception as e:  # noqa: BLE001
                chk.fail({"origin": kind, "exception": repr(e), "clause": "open"}, f"opening the source raised {type(e).__name__}")
                continue
            coherent = pkg.source_coherent(s.files)
            chk.count("origin", s.origin + ("" if coherent else " (source manifest incoherent: skipped)"))
            if not coherent:
                continue
            mirror.new(s)
            one_history(chk, rng, s, tmp)
            for f in tmp.glob("src-*"):
                if f.is_dir():
                    shutil.rmtree(f, ignore_errors=True)
                else:
                    f.unlink(missing_ok=True)
        samples = picture_sources()
        for h in range(chk.n(110, 1500)):
            kind = rng.choice(["template", "template", "path", "bytesio", "folder"])
            try:
                s = pkg.open_subject(rng, kind, tmp)
            except Exception as e:  # noqa: BLE001
                chk.fail({"origin": kind, "exception": repr(e), "clause": "open"}, f"opening the source raised {type(e).__name__}")
                continue
            if not pkg.source_coherent(s.files):
                continue
            chk.count("origin (picture-merge family)", s.origin)
            picture_history(chk, rng, s, tmp, samples)
            for f in tmp.glob("src-*"):
                if f.is_dir():
                    shutil.rmtree(f, ignore_errors=True)
                else:
                    f.unlink(missing_ok=True)
        mirror.run(chk)
    finally:
        shutil.rmtree(tmp, ignore_errors=True)


def check_saved(chk, s, data: bytes, case) -> bool:
    infos, files = pkg.read_zip(data)
    probs = pkg.manifest_problems(infos, files)
    if probs:
        chk.fail({**case, "clause": "package", "problems": probs[:4]}, "the saved package is not a valid ODF package: " + "; ".join(probs)[:300])
        return False
    return True


def one_history(chk, rng, s, tmp):
    from odfdo import Document

    steps = rng.randrange(1, 9)
    nontriv = False
    for i in range(steps):
        r = rng.random()
        case = {"origin": s.name, "history": s.log}
        if r < 0.12:
            s.log.append(["clone"])
            try:
                s.doc = s.doc.clone
            except Exception as e:  # noqa: BLE001
                chk.fail({**case, "exception": repr(e), "clause": "clone-raises"}, f"clone raised {type(e).__name__}")
                return
            chk.mirror.clone(s)
            continue
        if r < 0.27:
            s.log.append(["save+reopen"])
            try:
                data = pkg.save_zip_bytes(s.doc)
            except Exception as e:  # noqa: BLE001
                chk.fail({**case, "exception": repr(e), "clause": "save-raises"}, f"save raised {type(e).__name__}")
                return
            chk.case((s.name, repr(s.log)), nontrivial=nontriv, sample=case if nontriv else None)
            chk.mirror.save(s, data, s.doc.container.default_manifest_rdf.encode("utf8"))
            if not check_saved(chk, s, data, case):
                return
            s.doc = Document(io.BytesIO(data))
            chk.mirror.reopen(s)
            continue
        if r < 0.37:
            # a save in the middle of the history, the SAME document object goes on (what a later save writes must not depend on
            # what an earlier save did to the container: parts marked deleted, parts loaded, the manifest.rdf check)
            s.log.append(["save, go on"])
            chk.count("operation", "save, go on with the same object")
            try:
                data = pkg.save_zip_bytes(s.doc)
            except Exception as e:  # noqa: BLE001
                chk.fail({**case, "exception": repr(e), "clause": "save-raises"}, f"save raised {type(e).__name__}")
                return
            chk.case((s.name, repr(s.log)), nontrivial=nontriv)
            chk.mirror.save(s, data, s.doc.container.default_manifest_rdf.encode("utf8"))
            if not check_saved(chk, s, data, case):
                return
            continue
        op = pkg.gen_op(rng, s)
        if op[0] not in C04_OPS and op[0] != "del_part":
            continue
        chk.count("operation", op[0])
        if op[0] in ("add_file_path", "add_file_io", "add_same", "add_same_path", "del_part", "frame", "merge"):
            nontriv = True
        try:
            res = pkg.apply_op(s, op, tmp)
        except ValueError as e:
            if op[0] == "del_part" and "mandatory" in str(e):
                chk.count("operation", "del_part refused (mandatory part)")
                s.log[-1] = s.log[-1] + ["refused"]
                continue
            chk.fail({**case, "op": list(op), "exception": repr(e), "clause": "operation-raises"}, f"{op[0]} raised {type(e).__name__}")
            return
        except Exception as e:  # noqa: BLE001
            chk.fail({**case, "op": list(op), "exception": repr(e), "clause": "operation-raises"}, f"{op[0]} raised {type(e).__name__}")
            return
        if res == "NOOP":
            continue
        if res:
            chk.fail({**case, "op": list(op), "clause": "read"}, res)
            return
        chk.mirror.after_op(s, op)
    # the last save of the history: plain zip (followed by the model), pretty-printed zip, or a folder that is opened again and
    # saved as a zip (the layout of the XML parts is free there, the package rules are the same)
    final = rng.choice(["plain", "plain", "pretty", "folder", "folder-plain"])
    s.log.append(["final save", final])
    case = {"origin": s.name, "history": s.log}
    chk.case((s.name, repr(s.log)), nontrivial=nontriv, sample=case if nontriv else None)
    chk.count("final save", final)
    try:
        if final == "plain":
            data = pkg.save_zip_bytes(s.doc)
        elif final == "pretty":
            bio = io.BytesIO()
            s.doc.save(bio, pretty=True)
            data = bio.getvalue()
        else:
            import shutil

            target = tmp / f"c04-final-{rng.randrange(10**9)}"
            s.doc.save(target, packaging="folder", pretty=(final == "folder"))
            folder = Path(str(target) + ".folder")
            data = pkg.save_zip_bytes(Document(folder))
            shutil.rmtree(folder, ignore_errors=True)
    except Exception as e:  # noqa: BLE001
        chk.fail({**case, "exception": repr(e), "clause": "save-raises"}, f"save raised {type(e).__name__}")
        return
    if final == "plain":
        chk.mirror.save(s, data, s.doc.container.default_manifest_rdf.encode("utf8"))
    elif final == "pretty":
        # the model's pretty save (Package.savePretty): same names, parsed and standard parts pretty, the rest as they are
        chk.mirror.sync_xml(s)
        chk.mirror.save_pretty(s, data, s.doc.container.default_manifest_rdf.encode("utf8"))
    check_saved(chk, s, data, case)


# ---- picture-merge family: sources whose styles reference pictures of their own package -------------------------

PIC_OTHER_OPS = ("body", "styles", "add_file_path", "add_file_io", "add_same", "add_same_path", "frame", "merge", "parts")


def picture_sources() -> dict:
    """name -> (path, {picture url: bytes}) for the samples whose styles reference packaged pictures
    (draw:image under a master page, draw:fill-image) and whose own package is coherent"""
    out = {}
    for p in pkg.sample_files():
        try:
            files = pkg.ledger_from_zip_bytes(p.read_bytes())
            urls = pkg.merged_picture_urls(files)
        except Exception:  # noqa: BLE001
            continue
        if urls and all(u in files for u in urls) and pkg.source_coherent(files):
            out[p.name] = (p, {u: files[u] for u in urls})
    return out


def gen_source_spec(rng, samples: dict) -> dict:
    if samples and rng.random() < 0.5:
        return {"kind": "sample", "name": rng.choice(sorted(samples)), "via": rng.choice(["path", "bytesio"])}
    pictures = [[rng.choice(["png", "jpg"]), rng.randrange(4), rng.choice(["fill", "master"])] for _ in range(rng.randrange(1, 3))]
    return {"kind": "built", "type": rng.choice(list(pkg.TEMPLATES)), "pictures": pictures, "via": rng.choice(["live", "saved"])}


def open_source(spec: dict, samples: dict):
    """(Document, {picture url: bytes}) : the source of a merge and the pictures its styles point at"""
    from odfdo import Document, DrawFillImage, Element, Frame, Paragraph

    if spec["kind"] == "sample":
        path, pics = samples[spec["name"]]
        doc = Document(path) if spec["via"] == "path" else Document(io.BytesIO(path.read_bytes()))
        return doc, dict(pics)
    doc = Document(spec["type"])
    pics = {}
    for j, (kind, i, where) in enumerate(spec["pictures"]):
        data, _ = pkg.blob_bytes(kind, i)
        uri = doc.add_file(io.BytesIO(data))
        pics[uri] = data
        if where == "fill":
            doc.insert_style(DrawFillImage(name=f"Fill{j}", display_name=f"Fill {j}", url=uri))
            continue
        frame = Frame.image_frame(uri, size=("1cm", "1cm"), anchor_type="paragraph")
        master = doc.styles.get_elements("//style:master-page")[0]
        if spec["type"] in ("presentation", "drawing"):
            master.append(frame)
        else:
            header = master.get_element("style:header")
            if header is None:
                header = Element.from_tag("style:header")
                master.append(header)
            para = Paragraph("")
            para.append(frame)
            header.append(para)
    if spec["via"] == "saved":
        doc = Document(io.BytesIO(pkg.save_zip_bytes(doc)))
    return doc, pics


def picture_history(chk, rng, s, tmp, samples: dict) -> None:
    from odfdo import Document

    specs = [gen_source_spec(rng, samples) for _ in range(rng.choice([1, 1, 2]))]
    for spec in specs:
        chk.count("picture-merge source", spec["kind"] + ":" + (spec["name"] + " by " + spec["via"] if spec["kind"] == "sample" else spec["type"] + " " + spec["via"]))
    live: dict = {}
    carried: dict = {}          # picture url -> bytes, over the sources merged so far
    deleted: set = set()        # carried pictures deleted from the destination since it was last (re)opened
    nontriv = False

    def case():
        return {"origin": s.name, "family": "picture-merge", "sources": specs, "history": s.log}

    def save_and_check() -> bytes | None:
        chk.case((s.name, repr(specs), repr(s.log)), nontrivial=nontriv, sample=case() if nontriv else None)
        try:
            data = pkg.save_zip_bytes(s.doc)
        except Exception as e:  # noqa: BLE001
            chk.fail({**case(), "exception": repr(e), "clause": "save-raises"}, f"save raised {type(e).__name__}")
            return None
        return data if check_saved(chk, s, data, case()) else None

    for _ in range(rng.randrange(2, 10)):
        r = rng.random()
        if r < 0.10:
            s.log.append(["clone"])
            chk.count("operation (picture-merge family)", "clone")
            try:
                s.doc = s.doc.clone
            except Exception as e:  # noqa: BLE001
                chk.fail({**case(), "exception": repr(e), "clause": "clone-raises"}, f"clone raised {type(e).__name__}")
                return
            continue
        if r < 0.22:
            s.log.append(["save+reopen"])
            chk.count("operation (picture-merge family)", "save+reopen")
            data = save_and_check()
            if data is None:
                return
            s.doc = Document(io.BytesIO(data))
            deleted.clear()
            continue
        if r < 0.52:
            k = rng.randrange(len(specs))
            fresh = k not in live or rng.random() < 0.3
            op = ["merge_from", k, "fresh source object" if fresh else "same source object"]
            chk.count("operation (picture-merge family)", "merge_from")
            try:
                if fresh:
                    live[k] = open_source(specs[k], samples)
            except Exception as e:  # noqa: BLE001
                chk.fail({**case(), "op": op, "exception": repr(e), "clause": "open"}, f"building / opening the merge source raised {type(e).__name__}")
                return
            other, pics = live[k]
            held = sorted(u for u in pics if u in s.files)
            again = sorted(u for u in pics if u in deleted)
            s.log.append(op)
            try:
                s.doc.merge_styles_from(other)
            except Exception as e:  # noqa: BLE001
                chk.fail({**case(), "op": op, "exception": repr(e), "clause": "operation-raises"}, f"merge_styles_from raised {type(e).__name__}")
                return
            what = ("a picture of the source was deleted from the destination before (no reopen in between)" if again
                    else "the destination already holds a picture of the source" if held else "the pictures of the source are new to the destination")
            chk.count("picture-merge situation", what)
            for u, b in pics.items():
                s.files[u] = b
                carried[u] = b
                deleted.discard(u)
            nontriv = True
            continue
        if r < 0.78:
            pics = sorted(n for n in s.files if n.startswith("Pictures/") and not n.endswith("/"))
            pref = [n for n in pics if n in carried]
            if not pics:
                continue
            name = rng.choice(pref) if pref and rng.random() < 0.75 else rng.choice(pics)
            op = ("del_part", name)
        elif r < 0.84 and carried:
            # the bytes of a source picture through add_file: same content, name chosen by add_file
            u = rng.choice(sorted(carried))
            s.last_added = (u, carried[u])
            op = ("add_same", "the bytes of " + u)
        else:
            op = pkg.gen_op(rng, s)
            if op[0] not in PIC_OTHER_OPS:
                continue
        chk.count("operation (picture-merge family)", op[0])
        try:
            res = pkg.apply_op(s, op, tmp)
        except Exception as e:  # noqa: BLE001
            chk.fail({**case(), "op": list(op), "exception": repr(e), "clause": "operation-raises"}, f"{op[0]} raised {type(e).__name__}")
            return
        if res == "NOOP":
            continue
        if op[0] == "del_part" and op[1] in carried:
            deleted.add(op[1])
        if op[0] not in ("body", "styles", "parts"):
            nontriv = True
    save_and_check()


def replay(obj: dict) -> int:
    print(obj)
    return 0
