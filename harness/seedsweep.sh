#!/bin/bash
# seedsweep.sh [outdir] [parallel] : every stored seed against the check of its property (scratch copies, /repo untouched);
# one result file per seed in outdir, summary on stdout.  Evidence files are restored by seedrun2.sh; run the clean
# checks again afterwards if several seeds of one property ran side by side.
OUT=${1:-/tmp/seedsweep}; PAR=${2:-6}
V=$(cd "$(dirname "$0")/.." && pwd)
mkdir -p $OUT; rm -f $OUT/*.txt
for s in $(ls $V/seeded); do
  p=$(python3 -c "import json;print(json.load(open('$V/seeded/$s/meta.json'))['property'])")
  echo "$s $p"
done > $OUT/list
cat $OUT/list | xargs -P $PAR -L 1 bash -c 'TAILN=3 bash '$V'/harness/seedrun2.sh $0 $1 > '$OUT'/$0.txt 2>&1'
for f in $OUT/C*.txt; do
  n=$(basename $f .txt)
  if grep -q "does not apply" $f; then echo "$n PATCH-DOES-NOT-APPLY"; continue; fi
  r=$(grep -o "exit=[0-9]" $f | tail -1)
  echo "$n $r"
done | sort | tee $OUT/SUMMARY
echo "caught: $(grep -c 'exit=1' $OUT/SUMMARY) / $(wc -l < $OUT/SUMMARY)"
