"""C20 — a filled table of contents lists exactly the headings, in order, numbered right.

oracle: XML of text:index-body after fill vs an independent outline numbering over the heading
sequence read with lxml; title kept; fill idempotent (same TOC object, fresh TOC object, after
heading edits); odfdo-headers prints the same outline.
correspondence: numbering vs OdfModel/Toc.lean (dict model and spec)."""
from __future__ import annotations

import contextlib
import io

import core
from c05 import plain, NS_TEXT, T as TT

TEXTS = ["Intro", "A  B", " lead", "trail ", "tab\there", "two\nlines", "é漢 &<x>", "x", "Title with  spaces ", "1. numbered", ""]


def ref_numbering(levels, outline):
    """independent outline numbering: counters per level"""
    c: list[int] = []
    out = []
    for L in levels:
        if L > outline:
            continue
        while len(c) < L - 1:
            c.append(1)
        cur = c[L - 1] if len(c) >= L else 0
        c = c[: L - 1] + [cur + 1]
        out.append((L, ".".join(map(str, c)) + "."))
    return out


def run(chk: core.Check) -> None:
    from lxml import etree

    from odfdo import Document, Header, Paragraph, Span, TOC
    from odfdo.scripts.headers import headers_document

    rng = chk.rng
    chk.rule = (
        "documents with 0-12 headings of levels 1..10 in any order (skipped levels, deep jumps up and down), heading texts with white-space runs, "
        "tabs, line breaks, spans and XML specials, paragraphs in between, the TOC placed at a random position, outline level 0..10; fill, fill again on the "
        "same object, fill through a fresh wrapper, edit headings (add / delete / re-level) and fill again. non-trivial = a level is skipped or the sequence "
        "climbs by >= 2 levels or the outline level filters something; distinct by (levels, outline, texts)"
    )
    reqs = []
    for _ in range(chk.n(350, 5000)):
        n = rng.randint(0, 12)
        mode = rng.random()
        levels = []
        cur = 1
        for _i in range(n):
            if mode < 0.4:
                cur = max(1, min(10, cur + rng.choice([-3, -2, -1, 0, 0, 1, 1, 2])))
            else:
                cur = rng.randint(1, rng.choice([3, 5, 10]))
            levels.append(cur)
        outline = rng.choice([0, 0, 1, 2, 3, 5, 10])
        texts = [rng.choice(TEXTS) for _ in levels]
        doc = Document("text")
        body = doc.body
        body.clear()
        toc_pos = rng.randint(0, n)
        toc = TOC(outline_level=outline)
        headers = []
        for i, (L, tx) in enumerate(zip(levels, texts)):
            if i == toc_pos:
                body.append(toc)
            h = Header(L, tx)
            if rng.random() < 0.25 and tx.strip():
                h.append(Span(" sp" + str(i)))
                texts[i] = tx + " sp" + str(i)
            body.append(h)
            headers.append(h)
            if rng.random() < 0.5:
                body.append(Paragraph("para " + str(i)))
        if toc_pos == n:
            body.append(toc)
        case = {"levels": levels, "outline": outline, "texts": texts, "toc_pos": toc_pos}
        eff = outline or 10
        nontriv = any(b - a >= 2 for a, b in zip([0] + levels, levels)) or any(a - b >= 2 for a, b in zip(levels, levels[1:])) or any(L > eff for L in levels)
        chk.case((tuple(levels), outline, tuple(texts)), nontriv, sample=case if nontriv else None)

        def entries_of(t):
            node = etree.fromstring(
                f'<r xmlns:text="{NS_TEXT}" xmlns:office="urn:oasis:names:tc:opendocument:xmlns:office:1.0" xmlns:style="urn:oasis:names:tc:opendocument:xmlns:style:1.0" '
                f'xmlns:fo="urn:oasis:names:tc:opendocument:xmlns:xsl-fo-compatible:1.0">{t.serialize()}</r>')[0]
            ib = node.find(TT + "index-body")
            title, ents = None, []
            if ib is None:
                return None, []
            for ch in ib:
                if ch.tag == TT + "index-title":
                    title = "".join(plain(p) for p in ch)
                elif ch.tag == TT + "p":
                    ents.append(plain(ch))
                else:
                    ents.append("<" + ch.tag + ">")
            return title, ents

        def expect(levels_, texts_):
            return [f"{num} {tx}" for (L, num), tx in zip(ref_numbering(levels_, eff), [t for L, t in zip(levels_, texts_) if L <= eff])]

        try:
            toc.fill()
            title1, ents1 = entries_of(toc)
            exp1 = expect(levels, texts)
            if ents1 != exp1:
                chk.fail({**case, "entries": ents1, "expected": exp1}, "TOC entries are not exactly the headings (level <= outline) numbered by the outline")
                continue
            if title1 != "Table of Contents":
                chk.fail({**case, "title": title1}, "the TOC title was not kept")
                continue
            xml1 = toc.serialize()
            toc.fill()
            if toc.serialize() != xml1:
                chk.fail({**case, "second": entries_of(toc)[1]}, "filling again without changing the document changed the TOC")
                continue
            fresh = doc.body.get_toc()
            fresh.fill()
            if entries_of(fresh)[1] != exp1:
                chk.fail({**case, "entries": entries_of(fresh)[1]}, "filling through a fresh wrapper gives other entries")
                continue
            # heading-listing tool
            buf = io.StringIO()
            with contextlib.redirect_stdout(buf):
                headers_document(doc, eff)
            tool_lines = [ln for ln in buf.getvalue().split("\n")]
            tool_join = buf.getvalue()
            exp_tool = "".join(e + "\n" for e in exp1)
            if tool_join != exp_tool:
                chk.fail({**case, "tool": tool_join, "expected": exp_tool}, "odfdo-headers reports another outline than the TOC")
                continue
            # edits then fill again
            if headers:
                k = rng.randrange(len(headers))
                act = rng.choice(["delete", "relevel", "add"])
                lv2, tx2 = list(levels), list(texts)
                if act == "delete":
                    headers[k].delete()
                    del lv2[k], tx2[k]
                elif act == "relevel":
                    nl = rng.randint(1, 10)
                    headers[k].level = nl
                    lv2[k] = nl
                else:
                    nl = rng.randint(1, 6)
                    body.append(Header(nl, "Added"))
                    lv2.append(nl); tx2.append("Added")
                toc.fill()
                exp2 = expect(lv2, tx2)
                if entries_of(toc)[1] != exp2:
                    chk.fail({**case, "edit": act, "entries": entries_of(toc)[1], "expected": exp2}, "after a heading edit the refilled TOC is not the outline of the document")
                    continue
        except Exception as e:  # noqa: BLE001
            import traceback
            chk.fail({**case, "exception": repr(e), "trace": traceback.format_exc()[-500:]}, f"TOC fill raised {type(e).__name__}")
            continue
        nums = ";".join(f"{L}:{num[:-1]}" for L, num in ref_numbering(levels, eff)) or "-"
        lv = ",".join(map(str, levels)) or "e"
        reqs.append((f"toc fill {outline} {lv}", f"ok {nums} spec=ok", case))
        reqs.append((f"toc tool {eff} {lv}", f"ok {nums}", case))
    answers = core.run_driver([q for q, _, _ in reqs])
    for (q, exp, case), ans in zip(reqs, answers):
        if exp != ans:
            chk.disagree({**case, "line": q}, f"impl numbering {exp!r} != model {ans!r}")


def replay(obj: dict) -> int:
    print(obj)
    return 0
