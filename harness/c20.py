"""C20 — a filled table of contents lists exactly the headings, in order, numbered right.

oracle: XML of text:index-body after fill vs an independent outline numbering over the heading
sequence read with lxml; title kept; fill idempotent (same TOC object, fresh TOC object, after
heading edits); odfdo-headers prints the same outline.
correspondence: numbering vs OdfModel/Toc.lean (dict model and spec)."""
from __future__ import annotations

import contextlib
import io

import core
from c05 import plain, NS_TEXT, T as TT

TEXTS = ["Intro", "A  B", " lead", "trail ", "tab\there", "two\nlines", "é漢 &<x>", "x", "Title with  spaces ", "1. numbered", ""]


def ref_numbering(levels, outline):
    """independent outline numbering: counters per level"""
    c: list[int] = []
    out = []
    for L in levels:
        if L > outline:
            continue
        while len(c) < L - 1:
            c.append(1)
        cur = c[L - 1] if len(c) >= L else 0
        c = c[: L - 1] + [cur + 1]
        out.append((L, ".".join(map(str, c)) + "."))
    return out


def run(chk: core.Check) -> None:
    from lxml import etree

    from odfdo import Document, Header, Paragraph, Span, TOC
    from odfdo.scripts.headers import headers_document

    rng = chk.rng
    chk.rule = (
        "documents with 0-12 headings of levels 1..10 in any order (skipped levels, deep jumps up and down), heading texts with white-space runs, "
        "tabs, line breaks, spans and XML specials, paragraphs in between, the TOC placed at a random position, outline level 0..10; fill, fill again on the "
        "same object, fill through a fresh wrapper, edit headings (add / delete / re-level) and fill again. non-trivial = a level is skipped or the sequence "
        "climbs by >= 2 levels or the outline level filters something; distinct by (levels, outline, texts)"
    )
    reqs = []
    for _ in range(chk.n(350, 5000)):
        n = rng.randint(0, 12)
        mode = rng.random()
        levels = []
        cur = 1
        for _i in range(n):
            if mode < 0.4:
                cur = max(1, min(10, cur + rng.choice([-3, -2, -1, 0, 0, 1, 1, 2])))
            else:
                cur = rng.randint(1, rng.choice([3, 5, 10]))
            levels.append(cur)
        outline = rng.choice([0, 0, 1, 2, 3, 5, 10])
        texts = [rng.choice(TEXTS) for _ in levels]
        doc = Document("text")
        body = doc.body
        body.clear()
        toc_pos = rng.randint(0, n)
        toc = TOC(outline_level=outline)
        # the title is not always the default plain one: styled through the API, renamed, or holding markup / several
        # paragraphs as an office application writes it; "kept" = the index-title element is the same after fill()
        title_kind = rng.choice(["default", "default", "api-styled", "custom-text", "markup", "two-paragraphs", "renamed"])
        want_title = "Table of Contents"
        if title_kind == "api-styled":
            toc.set_toc_title("Contents", style="SectT", text_style="Contents_20_Heading")
            want_title = "Contents"
        elif title_kind == "custom-text":
            toc.set_toc_title("Sommaire  général")
            want_title = "Sommaire  général"
        elif title_kind in ("markup", "two-paragraphs", "renamed"):
            it = toc.get_element("text:index-body/text:index-title")
            if it is not None:
                if title_kind == "markup":
                    p0 = it.get_element("text:p")
                    p0.append(Span(" (draft)", style="T9"))
                    want_title = "Table of Contents (draft)"
                elif title_kind == "two-paragraphs":
                    it.append(Paragraph("second line", style="P9"))
                    want_title = "Table of Contentssecond line"
                else:
                    it.set_attribute("text:name", "Table of Contents1_Head")
        chk.count("title", title_kind)

        def title_xml(t):
            e = t.get_element("text:index-body/text:index-title")
            return None if e is None else etree.tostring(etree.fromstring(e.serialize().replace("<text:index-title", f'<text:index-title xmlns:text="{NS_TEXT}"', 1)), method="c14n")

        headers = []
        for i, (L, tx) in enumerate(zip(levels, texts)):
            if i == toc_pos:
                body.append(toc)
            h = Header(L, tx)
            if rng.random() < 0.25 and tx.strip():
                h.append(Span(" sp" + str(i)))
                texts[i] = tx + " sp" + str(i)
            body.append(h)
            headers.append(h)
            if rng.random() < 0.5:
                body.append(Paragraph("para " + str(i)))
        if toc_pos == n:
            body.append(toc)
        case = {"levels": levels, "outline": outline, "texts": texts, "toc_pos": toc_pos}
        eff = outline or 10
        nontriv = any(b - a >= 2 for a, b in zip([0] + levels, levels)) or any(a - b >= 2 for a, b in zip(levels, levels[1:])) or any(L > eff for L in levels)
        chk.case((tuple(levels), outline, tuple(texts)), nontriv, sample=case if nontriv else None)

        def entries_of(t):
            node = etree.fromstring(
                f'<r xmlns:text="{NS_TEXT}" xmlns:office="urn:oasis:names:tc:opendocument:xmlns:office:1.0" xmlns:style="urn:oasis:names:tc:opendocument:xmlns:style:1.0" '
                f'xmlns:fo="urn:oasis:names:tc:opendocument:xmlns:xsl-fo-compatible:1.0">{t.serialize()}</r>')[0]
            ib = node.find(TT + "index-body")
            title, ents = None, []
            if ib is None:
                return None, []
            for ch in ib:
                if ch.tag == TT + "index-title":
                    title = "".join(plain(p) for p in ch)
                elif ch.tag == TT + "p":
                    ents.append(plain(ch))
                else:
                    ents.append("<" + ch.tag + ">")
            return title, ents

        def expect(levels_, texts_):
            return [f"{num} {tx}" for (L, num), tx in zip(ref_numbering(levels_, eff), [t for L, t in zip(levels_, texts_) if L <= eff])]

        try:
            title_before = title_xml(toc)
            toc.fill()
            title1, ents1 = entries_of(toc)
            if title_xml(toc) != title_before:
                chk.fail({**case, "title_kind": title_kind, "before": (title_before or b"").decode()[:400], "after": (title_xml(toc) or b"").decode()[:400]},
                         "fill() did not keep the title element of the TOC as it was (text, styles, markup, name)")
                continue
            exp1 = expect(levels, texts)
            if ents1 != exp1:
                chk.fail({**case, "entries": ents1, "expected": exp1}, "TOC entries are not exactly the headings (level <= outline) numbered by the outline")
                continue
            if title1 != want_title:
                chk.fail({**case, "title": title1}, "the TOC title was not kept")
                continue
            xml1 = toc.serialize()
            toc.fill()
            if toc.serialize() != xml1:
                chk.fail({**case, "second": entries_of(toc)[1]}, "filling again without changing the document changed the TOC")
                continue
            fresh = doc.body.get_toc()
            fresh.fill()
            if entries_of(fresh)[1] != exp1:
                chk.fail({**case, "entries": entries_of(fresh)[1]}, "filling through a fresh wrapper gives other entries")
                continue
            # heading-listing tool
            buf = io.StringIO()
            with contextlib.redirect_stdout(buf):
                headers_document(doc, eff)
            tool_lines = [ln for ln in buf.getvalue().split("\n")]
            tool_join = buf.getvalue()
            exp_tool = "".join(e + "\n" for e in exp1)
            if tool_join != exp_tool:
                chk.fail({**case, "tool": tool_join, "expected": exp_tool}, "odfdo-headers reports another outline than the TOC")
                continue
            # edits then fill again
            if headers:
                k = rng.randrange(len(headers))
                act = rng.choice(["delete", "relevel", "add"])
                lv2, tx2 = list(levels), list(texts)
                if act == "delete":
                    headers[k].delete()
                    del lv2[k], tx2[k]
                elif act == "relevel":
                    nl = rng.randint(1, 10)
                    headers[k].level = nl
                    lv2[k] = nl
                else:
                    nl = rng.randint(1, 6)
                    body.append(Header(nl, "Added"))
                    lv2.append(nl); tx2.append("Added")
                toc.fill()
                exp2 = expect(lv2, tx2)
                if entries_of(toc)[1] != exp2:
                    chk.fail({**case, "edit": act, "entries": entries_of(toc)[1], "expected": exp2}, "after a heading edit the refilled TOC is not the outline of the document")
                    continue
        except Exception as e:  # noqa: BLE001
            import traceback
            chk.fail({**case, "exception": repr(e), "trace": traceback.format_exc()[-500:]}, f"TOC fill raised {type(e).__name__}")
            continue
        nums = ";".join(f"{L}:{num[:-1]}" for L, num in ref_numbering(levels, eff)) or "-"
        lv = ",".join(map(str, levels)) or "e"
        reqs.append((f"toc fill {outline} {lv}", f"ok {nums} spec=ok", case))
        reqs.append((f"toc tool {eff} {lv}", f"ok {nums}", case))
    answers = core.run_driver([q for q, _, _ in reqs])
    for (q, exp, case), ans in zip(reqs, answers):
        if exp != ans:
            chk.disagree({**case, "line": q}, f"impl numbering {exp!r} != model {ans!r}")


def replay(obj: dict) -> int:
    print(obj)
    return 0
