"""shared by C03 / C04 / C10: package-level histories on documents and an independent ledger.

A *subject* is an odfdo Document plus the ledger the harness keeps for it:
  files   : name -> bytes        what the package must contain (raw parts, XML parts as last known bytes)
  origin  : how the document was obtained (template / path / bytesio / folder)
The ledger is updated by the harness from the arguments of each operation, never from odfdo's state.
Observation of a saved package uses zipfile / lxml only."""
from __future__ import annotations

import hashlib
import io
import shutil
import zipfile
from pathlib import Path

from lxml import etree

SAMPLES = Path("/repo/tests/samples")
TEMPLATES = {"text": "text.ott", "spreadsheet": "spreadsheet.ots", "presentation": "presentation.otp", "drawing": "drawing.otg"}
TEMPLATE_DIR = Path("/repo/src/odfdo/templates")
XML_TOP = ("content.xml", "styles.xml", "meta.xml", "settings.xml", "META-INF/manifest.xml")
MANIFEST = "META-INF/manifest.xml"
MNS = "urn:oasis:names:tc:opendocument:xmlns:manifest:1.0"
PNG = (SAMPLES / "image.png").read_bytes() if (SAMPLES / "image.png").exists() else b"\x89PNG\r\n\x1a\n" + b"0" * 40
JPG = (SAMPLES / "image2.jpg").read_bytes() if (SAMPLES / "image2.jpg").exists() else b"\xff\xd8\xff" + b"1" * 40


def c14n(data: bytes) -> bytes:
    return etree.tostring(etree.fromstring(data), method="c14n")


def is_xml_name(name: str) -> bool:
    return name.endswith(".xml") or name.endswith(".rdf")


_CANON: dict = {}


def canon(name: str, data: bytes) -> bytes:
    """bytes of a part up to XML serialisation choices (and the generator stamp of meta.xml); memoised"""
    key = (name == "meta.xml", is_xml_name(name), data)
    r = _CANON.get(key)
    if r is None:
        if len(_CANON) > 4000:
            _CANON.clear()
        r = _CANON[key] = _canon(name, data)
    return r


def _canon(name: str, data: bytes) -> bytes:
    if is_xml_name(name) and data.strip():
        try:
            root = etree.fromstring(data)
        except etree.XMLSyntaxError:
            return data
        if name == "meta.xml":
            for g in root.iter("{urn:oasis:names:tc:opendocument:xmlns:meta:1.0}generator"):
                g.text = None
        return etree.tostring(root, method="c14n")
    return data


def read_zip(data: bytes) -> tuple[list, dict]:
    """(infolist, name -> bytes) of a zip given as bytes"""
    with zipfile.ZipFile(io.BytesIO(data)) as z:
        infos = z.infolist()
        return infos, {i.filename: z.read(i.filename) for i in infos}


def sample_files():
    out = []
    for p in sorted(SAMPLES.iterdir()):
        if p.suffix in (".odt", ".ods", ".odp", ".odg"):
            out.append(p)
    return out


class Subject:
    def __init__(self, doc, files: dict, origin: str, name: str):
        self.doc = doc
        self.files = files
        self.origin = origin
        self.name = name
        self.log: list = []
        self.deleted_rdf = False


def ledger_from_zip_bytes(data: bytes) -> dict:
    _, files = read_zip(data)
    return dict(files)


def open_subject(rng, kind: str, tmp: Path, which=None) -> Subject:
    """kind: template | path | bytesio | folder"""
    from odfdo import Document

    if kind == "template":
        t = which or rng.choice(list(TEMPLATES))
        doc = Document(t)
        files = ledger_from_zip_bytes((TEMPLATE_DIR / TEMPLATES[t]).read_bytes())
        mt = files["mimetype"].decode().replace("-template", "")
        files["mimetype"] = mt.encode()
        # the root entry of the manifest is rewritten: expected manifest = source manifest with the root media type changed
        root = etree.fromstring(files[MANIFEST])
        for e in root.iter("{%s}file-entry" % MNS):
            if e.get("{%s}full-path" % MNS) == "/":
                e.set("{%s}media-type" % MNS, mt)
        files[MANIFEST] = etree.tostring(root)
        return Subject(doc, files, "template", f"template:{t}")
    src = which or rng.choice(sample_files())
    data = src.read_bytes()
    files = ledger_from_zip_bytes(data)
    if kind == "path":
        target = tmp / f"src-{rng.randrange(10**9)}{src.suffix}"
        target.write_bytes(data)
        return Subject(Document(target), files, "path", f"path:{src.name}")
    if kind == "bytesio":
        return Subject(Document(io.BytesIO(data)), files, "bytesio", f"bytesio:{src.name}")
    if kind == "folder":
        folder = tmp / f"src-{rng.randrange(10**9)}.folder"
        folder.mkdir()
        for n, b in files.items():
            p = folder / n
            if n.endswith("/"):
                p.mkdir(parents=True, exist_ok=True)
            else:
                p.parent.mkdir(parents=True, exist_ok=True)
                p.write_bytes(b)
        return Subject(Document(folder), files, "folder", f"folder:{src.name}")
    raise AssertionError(kind)


# ---- operations -------------------------------------------------------------------------------------------

OPS = ["body", "meta", "styles", "add_file_path", "add_file_io", "add_same", "add_same", "add_same_path", "add_same_path", "del_part", "del_picture", "del_last", "read_part", "set_raw", "frame", "merge", "parts", "read_xml", "del_rdf"]


def gen_op(rng, s: Subject):
    k = rng.choice(OPS)
    if k == "body":
        return ("body", f"p{rng.randrange(1000)}")
    if k == "meta":
        return ("meta", f"title {rng.randrange(1000)}")
    if k == "styles":
        return ("styles", f"st{rng.randrange(50)}")
    if k in ("add_file_path", "add_file_io"):
        return (k, rng.choice(["png", "jpg", "blob"]), rng.randrange(4))
    if k == "add_same":
        return ("add_same",)
    if k == "add_same_path":
        return ("add_same_path",)
    if k == "del_part":
        cands = [n for n in s.files if n not in XML_TOP and n != "mimetype" and not n.endswith("/")]
        return ("del_part", rng.choice(sorted(cands))) if cands else ("body", "x")
    if k == "del_last":
        last = getattr(s, "last_added", None)
        return ("del_part", last[0]) if last and last[0] in s.files else ("add_file_io", "png", 1)
    if k == "del_picture":
        cands = [n for n in s.files if n.startswith("Pictures/") and not n.endswith("/")]
        return ("del_part", rng.choice(sorted(cands))) if cands else ("add_file_io", "png", 0)
    if k == "read_part":
        cands = [n for n in s.files if n not in XML_TOP and not n.endswith("/")]
        return ("read_part", rng.choice(sorted(cands))) if cands else ("parts",)
    if k == "set_raw":
        return ("set_raw", rng.choice(["Thumbnails/thumbnail.png", "extra/data.bin", "Pictures/manual.png"]), rng.randrange(3))
    if k == "frame":
        return ("frame", rng.randrange(4))
    if k == "merge":
        return ("merge", rng.choice(["text", "spreadsheet", "presentation", "lpod"]))
    if k == "read_xml":
        return ("read_xml", rng.choice(["content", "styles", "meta", "settings", "manifest"]))
    if k == "del_rdf":
        return ("del_part", "manifest.rdf") if "manifest.rdf" in s.files else ("parts",)
    return ("parts",)


def blob_bytes(kind: str, i: int) -> tuple[bytes, str]:
    if kind == "png":
        return PNG + bytes([i]) * i, ".png"
    if kind == "jpg":
        return JPG + bytes([i]) * i, ".jpg"
    return (b"blob-%d-" % i) * 5, ".bin"


def apply_op(s: Subject, op, tmp: Path):
    """run the operation on the odfdo document and on the ledger. Returns None, or a string naming an
    exception the property allows (a refused operation: the ledger is left as it was)."""
    from odfdo import Document, Frame, Paragraph, Style

    doc = s.doc
    o = op[0]
    s.log.append(list(op))
    if o == "body":
        doc.body.append(Paragraph(op[1]))
    elif o == "meta":
        doc.meta.title = op[1]
    elif o == "styles":
        doc.insert_style(Style("paragraph", name=op[1], area="text", bold=True), automatic=False)
    elif o in ("add_file_path", "add_file_io"):
        data, ext = blob_bytes(op[1], op[2])
        if o == "add_file_path":
            p = tmp / f"blob-{hashlib.md5(data).hexdigest()[:8]}{ext}"
            p.write_bytes(data)
            uri = doc.add_file(p)
        else:
            uri = doc.add_file(io.BytesIO(data))
        s.files[uri] = data
        s.last_added = (uri, data)
        s.last_uri = uri
    elif o == "add_same":
        last = getattr(s, "last_added", None)
        if last is None:
            s.log[-1] = ["noop"]
            return "NOOP"
        uri = doc.add_file(io.BytesIO(last[1]))
        s.files[uri] = last[1]
        s.last_uri = uri
    elif o == "add_same_path":
        # the bytes added last, this time from a file with an extension: another name for the same content
        last = getattr(s, "last_added", None)
        if last is None:
            s.log[-1] = ["noop"]
            return "NOOP"
        pth = tmp / f"same-{hashlib.md5(last[1]).hexdigest()[:8]}.png"
        pth.write_bytes(last[1])
        uri = doc.add_file(pth)
        s.files[uri] = last[1]
        s.last_uri = uri
    elif o == "del_part":
        doc.del_part(op[1])
        s.files.pop(op[1], None)
    elif o == "read_part":
        got = doc.get_part(op[1])
        if not isinstance(got, (bytes, str)) and hasattr(got, "serialize"):
            # the XML part of an embedded object comes back parsed (possibly edited in memory earlier in the history)
            s.read_back = got.serialize()
            if op[1] not in getattr(s, "known_parsed", {}) and canon(op[1], s.read_back) != canon(op[1], s.files[op[1]]):
                return f"MISMATCH get_part({op[1]!r}) returned another XML document than the part holds"
        elif got != s.files[op[1]]:
            return f"MISMATCH get_part({op[1]!r}) returned other bytes than the part holds"
    elif o == "set_raw":
        data = (b"raw-%d-" % op[2]) * 7
        doc.set_part(op[1], data)
        s.files[op[1]] = data
        s.unlisted = getattr(s, "unlisted", set()) | {op[1]}
    elif o == "frame":
        data, ext = blob_bytes("png", op[1])
        uri = doc.add_file(io.BytesIO(data))
        s.files[uri] = data
        s.last_uri = uri
        doc.body.append(Frame.image_frame(uri, size=("1cm", "1cm"), anchor_type="paragraph"))
    elif o == "merge":
        src = {"text": "text", "spreadsheet": "spreadsheet", "presentation": "presentation"}.get(op[1])
        other = Document(src) if src else Document(TEMPLATE_DIR / "lpod_styles.odt")
        doc.merge_styles_from(other)
        # pictures of master pages / fill images are copied under their own name
        oz = ledger_from_zip_bytes((TEMPLATE_DIR / (TEMPLATES[src] if src else "lpod_styles.odt")).read_bytes())
        s.merged = []
        omt = dict(manifest_entries(oz[MANIFEST]))
        for url in merged_picture_urls(oz):
            if url in oz:
                s.files[url] = oz[url]
                s.merged.append((url, oz[url], omt.get(url)))
    elif o == "parts":
        doc.get_parts()
    elif o == "read_xml":
        n = {"content": "content.xml", "styles": "styles.xml", "meta": "meta.xml", "settings": "settings.xml", "manifest": MANIFEST}[op[1]]
        if n not in s.files:
            # the package does not have this (optional) part: the call is refused and leaves nothing behind (a part object that
            # cannot be loaded, left among the parsed parts, made every later save of the document raise: C11-F5, fixed)
            try:
                got = doc.get_part(op[1])
            except (ValueError, KeyError, OSError):
                s.log[-1] = s.log[-1] + ["absent: refused"]
                return "NOOP"
            return f"get_part({op[1]!r}) of a part the package does not have returned a {type(got).__name__} (unusable, and registered among the parsed parts) instead of refusing"
        doc.get_part(op[1])
    else:
        raise AssertionError(op)
    return None


def merged_picture_urls(files: dict) -> list[str]:
    """hrefs of the images merge_styles_from copies: draw:image under a master page, draw:fill-image"""
    ns = {"style": "urn:oasis:names:tc:opendocument:xmlns:style:1.0", "draw": "urn:oasis:names:tc:opendocument:xmlns:drawing:1.0",
          "xlink": "http://www.w3.org/1999/xlink"}
    out = []
    for part in ("styles.xml", "content.xml"):
        if part not in files:
            continue
        root = etree.fromstring(files[part])
        for e in root.xpath("//style:master-page//draw:image | //draw:fill-image", namespaces=ns):
            href = e.get("{%s}href" % ns["xlink"])
            if href:
                out.append(href)
    return out


def in_memory_expectation(s: Subject) -> dict:
    """name -> canonical bytes the saved package must hold: the ledger, with every parsed XML part replaced by
    its in-memory serialisation at this moment (observed through the private cache: read-only)"""
    exp = {n: canon(n, b) for n, b in s.files.items()}
    parsed = getattr(s.doc, "_Document__xmlparts", {})
    for path, part in parsed.items():
        if part is not None:
            exp[path] = canon(path, part.serialize())
    return exp


def manifest_entries(data: bytes) -> list[tuple[str, str]]:
    root = etree.fromstring(data)
    return [(e.get("{%s}full-path" % MNS), e.get("{%s}media-type" % MNS)) for e in root.iter("{%s}file-entry" % MNS)]


def manifest_problems(infos, files: dict) -> list[str]:
    """independent check of a saved zip: entry order, compression, duplicates, manifest vs content"""
    out = []
    names = [i.filename for i in infos]
    if not names or names[0] != "mimetype":
        out.append(f"first entry is {names[0] if names else None!r}, not 'mimetype'")
    elif infos[0].compress_type != zipfile.ZIP_STORED:
        out.append("'mimetype' is compressed")
    dup = sorted({n for n in names if names.count(n) > 1})
    if dup:
        out.append(f"duplicate entry names {dup}")
    if MANIFEST not in files:
        out.append("no META-INF/manifest.xml")
        return out
    ents = manifest_entries(files[MANIFEST])
    paths = [p for p, _ in ents]
    dupm = sorted({p for p in paths if paths.count(p) > 1})
    if dupm:
        out.append(f"manifest lists {dupm} more than once")
    root = [m for p, m in ents if p == "/"]
    mt = files.get("mimetype", b"").decode("utf8", "replace")
    if root != [mt]:
        out.append(f"root entry media types {root} != mimetype {mt!r}")
    real = {n for n in names if not n.endswith("/") and n != "mimetype" and not n.startswith("META-INF/")}
    listed = {p for p in paths if p != "/" and not p.endswith("/")}
    if real - listed:
        out.append(f"files not listed in the manifest: {sorted(real - listed)}")
    if listed - real:
        out.append(f"manifest lists absent files: {sorted(listed - real)}")
    return out


def source_coherent(files: dict) -> bool:
    """the source package itself satisfies the manifest rule (precondition of C04 for opened samples)"""

    class I:  # noqa: E742
        def __init__(self, n):
            self.filename = n
            self.compress_type = zipfile.ZIP_STORED

    infos = [I("mimetype")] + [I(n) for n in files if n != "mimetype"]
    return not manifest_problems(infos, files)


def save_zip_bytes(doc) -> bytes:
    bio = io.BytesIO()
    doc.save(bio)
    return bio.getvalue()


# ---- the Lean model's side ------------------------------------------------------------------------------------


class Mirror:
    """builds the `pk` requests that make OdfModel/Package.lean follow the same history; one instance per check run"""

    NAMES = {"mimetype": 0, MANIFEST: 1, "content.xml": 2, "meta.xml": 3, "settings.xml": 4, "styles.xml": 5, "manifest.rdf": 6, "Pictures/": 7, "/": 8}

    def __init__(self):
        self.names = dict(self.NAMES)
        self.blobs: dict = {}
        self.mts = {"": 0}
        self.reqs: list = []          # (line, expected or None, case)
        self.slots = 0

    def nid(self, name: str) -> int:
        if name not in self.names:
            self.names[name] = len(self.names) + 1
        return self.names[name]

    def mt(self, m) -> int:
        m = m or ""
        if m not in self.mts:
            self.mts[m] = len(self.mts)
        return self.mts[m]

    def blob(self, name: str, data: bytes) -> str:
        if name == MANIFEST:
            ents = manifest_entries(data)
            return "m" + ",".join(f"{self.nid(p)}-{self.mt(m)}" for p, m in ents)
        key = canon(name, data)
        if key not in self.blobs:
            self.blobs[key] = len(self.blobs) + 1
        return f"r{self.blobs[key]}"

    @staticmethod
    def layout_free(name: str, data: bytes) -> bytes:
        """an XML part up to layout: white-space-only text nodes dropped, canonical form, generator blanked"""
        try:
            root = etree.fromstring(data, etree.XMLParser(remove_blank_text=True))
        except etree.XMLSyntaxError:
            return data
        for e in root.iter():
            if e.text is not None and not e.text.strip():
                e.text = None
            if e.tail is not None and not e.tail.strip():
                e.tail = None
        if name == "meta.xml":
            for g in root.iter("{urn:oasis:names:tc:opendocument:xmlns:meta:1.0}generator"):
                g.text = None
        return etree.tostring(root, method="c14n")

    def save_pretty(self, s: "Subject", data: bytes, default_rdf: bytes) -> None:
        """a pretty-printed zip save, LAST step of a history: the model's `savePretty` names every entry `r<k>` (blob k as it is),
        `r<k + 1000000>` (blob k through the pretty serialiser) or `m…` (the manifest by its entries); the implementation's entry
        must be blob k exactly, blob k up to layout, the same manifest entries"""
        _, files = read_zip(data)
        self.reqs.append((f"pk {s.slot} savep {self.blob('manifest.rdf', default_rdf)}", ("PRETTY", files), {"origin": s.name, "history": list(s.log), "what": "the pretty-printed package"}))

    def files_words(self, files: dict) -> str:
        return " ".join(f"{self.nid(n)}:{self.blob(n, b)}" for n, b in files.items())

    def new(self, s: Subject) -> None:
        self.slots += 1
        s.slot = self.slots
        s.known_parsed = {}
        mode = "path" if s.origin in ("path", "folder") else "bytes"
        self.reqs.append((f"pk new {s.slot} {mode} {self.files_words(s.files)}", "ok", {"origin": s.name}))

    def send(self, s: Subject, text: str, expected=None, case=None):
        self.reqs.append((f"pk {s.slot} {text}", expected, case or {"origin": s.name, "history": list(s.log)}))

    def sync_xml(self, s: Subject) -> None:
        """tell the model the value of every parsed XML part that the API edited (all but the manifest, which
        the model must get right by itself)"""
        parsed = getattr(s.doc, "_Document__xmlparts", {})
        for path, part in parsed.items():
            if part is None or path == MANIFEST:
                continue
            b = self.blob(path, part.serialize())
            if s.known_parsed.get(path) != b:
                s.known_parsed[path] = b
                self.send(s, f"edit {self.nid(path)} {b}", "ok")
        for path in list(s.known_parsed):
            if path not in parsed:
                del s.known_parsed[path]

    def after_op(self, s: Subject, op, refused=False) -> None:
        o = op[0]
        if refused:
            return
        if o in ("add_file_path", "add_file_io", "add_same", "add_same_path", "frame"):
            uri, data = s.last_uri, s.files[s.last_uri]
            m = s.doc.manifest.get_media_type(uri)
            self.send(s, f"addfile {self.nid(uri)} {self.blob(uri, data)} {self.mt(m)}", "ok")
        elif o == "del_part":
            self.send(s, f"del {self.nid(op[1])}", "ok")
        elif o == "set_raw":
            self.send(s, f"set {self.nid(op[1])} {self.blob(op[1], s.files[op[1]])}", "ok")
        elif o == "read_part":
            n = op[1]
            if Path(n).name in ("content.xml", "styles.xml", "meta.xml", "settings.xml", "manifest.xml"):
                self.send(s, f"parse {self.nid(n)}", "ok " + self.blob(n, getattr(s, "read_back", None) or s.files[n]))
                s.read_back = None
            else:
                self.send(s, f"get {self.nid(n)}", "ok " + self.blob(n, s.files[n]))
        elif o == "read_xml":
            n = {"content": "content.xml", "styles": "styles.xml", "meta": "meta.xml", "settings": "settings.xml", "manifest": MANIFEST}[op[1]]
            self.send(s, f"parse {self.nid(n)}", None)
        elif o == "merge":
            for url, data, m in getattr(s, "merged", []):
                self.send(s, f"set {self.nid(url)} {self.blob(url, data)}", "ok")
                self.send(s, f"addpath {self.nid(url)} {self.mt(m)}", "ok")
        self.sync_xml(s)

    def clone(self, s: Subject) -> None:
        self.slots += 1
        self.send(s, f"clone {self.slots}", "ok")
        s.slot = self.slots
        s.known_parsed = {}

    def save(self, s: Subject, data: bytes, default_rdf: bytes) -> None:
        infos, files = read_zip(data)
        words = " ".join(f"{self.nid(i.filename)}:{self.blob(i.filename, files[i.filename])}" for i in infos)
        self.send(s, f"save {self.blob('manifest.rdf', default_rdf)}", ("ok " + words).strip(), {"origin": s.name, "history": list(s.log), "what": "the saved package"})
        self.sync_saved(s)

    def sync_saved(self, s: Subject) -> None:
        # the save parses meta.xml (generator stamp) in both worlds
        parsed = getattr(s.doc, "_Document__xmlparts", {})
        s.known_parsed = {p: self.blob(p, part.serialize()) for p, part in parsed.items() if part is not None and p != MANIFEST}

    def reopen(self, s: Subject) -> None:
        self.slots += 1
        self.send(s, f"reopen {self.slots}", "ok")
        s.slot = self.slots
        s.known_parsed = {}

    def run(self, chk) -> None:
        import core

        answers = core.run_driver([q for q, _, _ in self.reqs])
        for (q, exp, case), ans in zip(self.reqs, answers):
            if exp is None:
                if ans.startswith("bad") or ans == "no-doc":
                    chk.disagree({**case, "line": q[:300]}, f"model answered {ans!r}")
                continue
            if isinstance(exp, tuple) and exp[0] == "PRETTY":
                files = exp[1]
                rev_n = {v: k for k, v in self.names.items()}
                rev_b = {v: k for k, v in self.blobs.items()}
                if not ans.startswith("ok"):
                    chk.disagree({**case, "line": q[:200]}, f"model answered {ans!r}")
                    continue
                model = {}
                for w in ans.split(" ")[1:]:
                    n_, _, b_ = w.partition(":")
                    model[rev_n.get(int(n_), n_)] = b_
                diffs = []
                for n_ in sorted(set(model) | set(files)):
                    if n_ not in files:
                        diffs.append(f"{n_}: written by the model only")
                    elif n_ not in model:
                        diffs.append(f"{n_}: written by the implementation only")
                    elif model[n_].startswith("m"):
                        if self.blob(MANIFEST, files[n_]) != model[n_]:
                            diffs.append(f"{n_}: manifest entries differ")
                    else:
                        k = int(model[n_][1:])
                        base = rev_b.get(k % 1000000)
                        if base is None:
                            diffs.append(f"{n_}: the model names an unknown blob {k}")
                        elif k >= 1000000:
                            if self.layout_free(n_, files[n_]) != self.layout_free(n_, base):
                                diffs.append(f"{n_}: not the pretty-printed form of what the plain save writes")
                        elif canon(n_, files[n_]) != base:
                            diffs.append(f"{n_}: the model writes this part as it is, the implementation wrote something else")
                if diffs:
                    chk.disagree({**case, "line": q[:200], "differences": diffs[:6]}, "pretty-printed package: implementation and model (Doc.savePretty) differ")
                continue
            if exp != ans and q.split(" ")[2:3] == ["save"]:
                # the order of the entries after `mimetype` is the insertion order of a dict fed by a directory listing: compared as a set
                a, b = exp.split(" "), ans.split(" ")
                if a[:2] == b[:2] and sorted(a[2:]) == sorted(b[2:]):
                    continue
            if exp != ans:
                a, b = exp.split(" "), ans.split(" ")
                onlyi = [w for w in a if w not in b][:6]
                onlym = [w for w in b if w not in a][:6]
                rev_n = {v: k for k, v in self.names.items()}
                def show(ws):
                    return [f"{rev_n.get(int(w.split(':')[0]), w) if ':' in w and w.split(':')[0].isdigit() else w}={w.split(':', 1)[1][:60] if ':' in w else ''}" for w in ws]
                chk.disagree({**case, "line": q[:300], "only_impl": show(onlyi), "only_model": show(onlym), "order_differs": sorted(a) == sorted(b)},
                             "package: implementation and model differ")
