"""C06 — typed values survive the trip through the document for every value of every type.

oracle: for every carrier {Cell ctor, Cell.value setter, Cell.set_value, Table.set_value, Row.set_value,
VarSet, UserFieldDecl, UserDefined, user-defined metadata} x boundary lattice of every type: the
value read back (directly, after re-parsing the element, after save + reopen) equals `canon(v)`
and the attributes written are in the lexical space ODF prescribes.
correspondence: the branch taken for each value (value-type written) vs the Lean dispatch
model generated from the source order of the isinstance chain."""
from __future__ import annotations

import io
import re
from datetime import date, datetime, timedelta, timezone
from decimal import Decimal

import core

RE_DOUBLE = re.compile(r"[-+]?([0-9]+(\.[0-9]*)?|\.[0-9]+)([eE][-+]?[0-9]+)?\Z")
RE_BOOL = re.compile(r"(true|false)\Z")
RE_DATE = re.compile(r"[0-9]{4}-[0-9]{2}-[0-9]{2}\Z")
RE_DATETIME = re.compile(r"[0-9]{4}-[0-9]{2}-[0-9]{2}T[0-9]{2}:[0-9]{2}:[0-9]{2}(\.[0-9]+)?(Z|[+-][0-9]{2}:[0-9]{2})?\Z")
RE_DURATION = re.compile(r"-?P([0-9]+D)?(T([0-9]+H)?([0-9]+M)?([0-9]+(\.[0-9]+)?S)?)?\Z")


def lattice(rng, n_random):
    vals = [None, True, False]
    vals += [0, 1, -1, 2, 7, 42, -42, 255, 2**31 - 1, -2**31, 2**53, 2**53 + 1, -(2**53) - 1, 2**63, -2**63, 10**30, 10**30 + 7, 12345678901234567891]
    vals += [0.0, 1.0, -1.0, 0.5, 0.1, -0.1, 1.5, 3.14159, 1e22, 1e21, 1e-7, 5e-324, 1.7976931348623157e308, 123456.789, 2.5e-5, 100.0, 1e16, 0.30000000000000004]
    vals += [Decimal("0"), Decimal("1"), Decimal("1.0"), Decimal("1.50"), Decimal("-0.001"), Decimal("1E+30"), Decimal("1E-20"), Decimal("123.456000"), Decimal("-7"), Decimal("0.1"), Decimal("10.00")]
    vals += ["", "a", "  a  ", " lead", "trail ", "two  spaces", "tab\there", "line\nbreak", "<tag> & \"q\" 'a'", "é漢", "true", "false", "True", "1", "1.5", "2024-01-31", "PT1H", "None", "x" * 300]
    vals += [date(1, 1, 1), date(999, 12, 31), date(1000, 1, 1), date(2024, 2, 29), date(2024, 1, 31), date(9999, 12, 31), date(1970, 1, 1)]
    tzs = [None, timezone.utc, timezone(timedelta(hours=5, minutes=30)), timezone(-timedelta(hours=8))]
    for d in [date(1, 1, 1), date(999, 6, 15), date(2024, 2, 29), date(9999, 12, 31)]:
        for (h, mi, s, us) in [(0, 0, 0, 0), (12, 30, 15, 0), (23, 59, 59, 999999), (0, 0, 0, 1), (9, 5, 7, 500000)]:
            for tz in tzs:
                if d.year in (1, 9999) and tz is not None:
                    continue
                vals.append(datetime(d.year, d.month, d.day, h, mi, s, us, tzinfo=tz))
    vals += [timedelta(0), timedelta(seconds=1), timedelta(seconds=59), timedelta(minutes=1), timedelta(hours=1), timedelta(hours=23, minutes=59, seconds=59),
             timedelta(days=1), timedelta(days=1, seconds=1), timedelta(days=400, hours=3), timedelta(seconds=-1), timedelta(days=-1), timedelta(days=-2, hours=5),
             timedelta(hours=100), timedelta(days=36525), timedelta(microseconds=1), timedelta(seconds=1, microseconds=500000), timedelta(microseconds=-250)]
    for _ in range(n_random):
        k = rng.randrange(7)
        if k == 0:
            vals.append(rng.randrange(-10**rng.randrange(1, 25), 10**rng.randrange(1, 25)))
        elif k == 1:
            vals.append(rng.uniform(-1, 1) * 10 ** rng.randrange(-8, 20))
        elif k == 2:
            vals.append(Decimal(rng.randrange(-10**9, 10**9)).scaleb(-rng.randrange(0, 8)))
        elif k == 3:
            vals.append("".join(rng.choice(["a", "b", " ", " ", "\t", "\n", "<", "&", '"', "é", "1"]) for _ in range(rng.randrange(0, 9))))
        elif k == 4:
            vals.append(date(rng.randrange(1, 10000), rng.randrange(1, 13), rng.randrange(1, 29)))
        elif k == 5:
            vals.append(datetime(rng.randrange(1, 10000), rng.randrange(1, 13), rng.randrange(1, 29), rng.randrange(24), rng.randrange(60), rng.randrange(60),
                                 rng.choice([0, 0, rng.randrange(10**6)]), tzinfo=rng.choice(tzs[:3])))
        else:
            vals.append(timedelta(seconds=rng.randrange(-10**7, 10**7)))
    return vals


EQUAL_LOOKING = [
    [0, False, 0.0, Decimal(0)],
    [1, True, 1.0, Decimal(1), Decimal("1.0")],
    [datetime(2024, 1, 31), date(2024, 1, 31)],
    ["1", 1], ["true", True], ["", 0],
]


def canon_ok(v, got) -> bool:
    """`got` is an equal value of the corresponding type (DESIGN.md C06 'Reading')"""
    if v is None:
        return got is None
    if isinstance(v, bool):
        return got is v
    if isinstance(v, int):
        return type(got) is int and got == v
    if isinstance(v, float):
        return isinstance(got, (int, Decimal)) and not isinstance(got, bool) and float(got) == v
    if isinstance(v, Decimal):
        return isinstance(got, (int, Decimal)) and not isinstance(got, bool) and Decimal(got) == v
    if isinstance(v, str):
        return type(got) is str and got == v
    if isinstance(v, datetime):
        return isinstance(got, datetime) and got == v and got.utcoffset() == v.utcoffset() and got.replace(tzinfo=None) == v.replace(tzinfo=None)
    if isinstance(v, date):
        # documented correspondence: a date is read back as the datetime at 00:00 of that day
        return (isinstance(got, datetime) and got == datetime(v.year, v.month, v.day)) or (type(got) is date and got == v)
    if isinstance(v, timedelta):
        return isinstance(got, timedelta) and got == v
    return False


def vclass(v):
    return "None" if v is None else type(v).__name__


def expected_type(v):
    if v is None:
        return None
    if isinstance(v, bool):
        return "boolean"
    if isinstance(v, (int, float, Decimal)):
        return "float"
    if isinstance(v, str):
        return "string"
    if isinstance(v, (date, datetime)):
        return "date"
    return "time"


def lexical_ok(attrs: dict) -> str | None:
    vt = attrs.get("office:value-type") or attrs.get("meta:value-type")
    if vt == "boolean":
        a = attrs.get("office:boolean-value", attrs.get("#text"))
        return None if a is not None and RE_BOOL.match(a) else f"boolean value {a!r}"
    if vt == "float":
        a = attrs.get("office:value", attrs.get("#text"))
        return None if a is not None and RE_DOUBLE.match(a) else f"float value {a!r}"
    if vt == "date":
        a = attrs.get("office:date-value", attrs.get("#text"))
        return None if a is not None and (RE_DATE.match(a) or RE_DATETIME.match(a)) else f"date value {a!r}"
    if vt == "time":
        a = attrs.get("office:time-value", attrs.get("#text"))
        return None if a is not None and RE_DURATION.match(a) and a not in ("P", "-P", "PT", "-PT") else f"time value {a!r}"
    return None


def TRANSLATE():
    import translate
    return translate.gen_dispatch()


def run(chk: core.Check) -> None:
    from odfdo import Cell, Document, Element, Row, Table, UserDefined, UserFieldDecl, VarSet

    rng = chk.rng
    chk.rule = (
        "values: boundary lattice per type (None, booleans, ints to 10^30, floats incl. exponents and subnormal, Decimals with trailing zeros / exponents, strings "
        "with blanks / XML specials / type-looking content, dates and datetimes of years 1..9999 with microseconds and offsets, durations of either sign up to a "
        "century, with microseconds) + random values, x 9 carriers x {direct read, re-parsed element, save + reopen (sampled)}. non-trivial = a boundary value or a "
        "value whose text form could be mistaken for another type; distinct by (carrier, repr(value))"
    )
    chk.classifiers["string_true_false_read_as_bool"] = lambda case: case.get("vclass") == "str" and case.get("value") in ("'true'", "'false'")
    vals = lattice(rng, chk.n(250, 4000))

    VALUE_ATTRS = ("office:value", "office:boolean-value", "office:date-value", "office:time-value", "office:string-value", "office:currency")
    OWN_ATTR = {"boolean": "office:boolean-value", "float": "office:value", "date": "office:date-value", "time": "office:time-value", "string": "office:string-value"}

    def carriers(v, prev=None):
        """(name, writer() -> (element, reader, second reader) ); with `prev` also the two-write histories:
        the carrier already holds a value of (usually) another type when v is written"""
        out = []
        if prev is not None:
            def o_cell_prop():
                c = Cell(prev)
                c.value = v
                return c, (lambda e: e.value), (lambda e: e.get_value())
            out.append(("Cell.value= (overwrite)", o_cell_prop))

            def o_cell_set():
                c = Cell(prev)
                c.set_value(v)
                return c, (lambda e: e.get_value()), (lambda e: e.value)
            out.append(("Cell.set_value (overwrite)", o_cell_set))

            def o_table():
                t = Table("T")
                t.set_value((1, 1), prev)
                t.set_value((1, 1), v)
                return t, (lambda e: e.get_value((1, 1))), (lambda e: e.get_cell((1, 1)).value)
            out.append(("Table.set_value (overwrite)", o_table))

            def o_row():
                r = Row()
                r.set_value(2, prev)
                r.set_value(2, v)
                return r, (lambda e: e.get_value(2)), (lambda e: e.get_cell(2).get_value())
            out.append(("Row.set_value (overwrite)", o_row))

            def o_varset():
                e = VarSet("v1", value=prev)
                e.set_value(v)
                return e, (lambda e: e.get_value()), None
            out.append(("VarSet.set_value (overwrite)", o_varset))

            def o_ufd():
                e = UserFieldDecl("u1", value=prev)
                e.set_value(v)
                return e, (lambda e: e.get_value()), None
            out.append(("UserFieldDecl.set_value (overwrite)", o_ufd))
            return out

        def c_cell_ctor():
            c = Cell(v)
            return c, (lambda e: e.get_value()), (lambda e: e.value)
        out.append(("Cell(v)", c_cell_ctor))

        def c_cell_prop():
            c = Cell()
            c.value = v
            return c, (lambda e: e.value), (lambda e: e.get_value())
        out.append(("Cell.value=", c_cell_prop))

        def c_cell_set():
            c = Cell()
            c.set_value(v)
            return c, (lambda e: e.get_value()), (lambda e: e.value)
        out.append(("Cell.set_value", c_cell_set))

        def c_table():
            t = Table("T")
            t.set_value((1, 1), v)
            return t, (lambda e: e.get_value((1, 1))), (lambda e: e.get_cell((1, 1)).value)
        out.append(("Table.set_value", c_table))

        def c_row():
            r = Row()
            r.set_value(2, v)
            return r, (lambda e: e.get_value(2)), (lambda e: e.get_cell(2).get_value())
        out.append(("Row.set_value", c_row))

        def c_varset():
            e = VarSet("v1", value=v)
            return e, (lambda e: e.get_value()), None
        out.append(("VarSet", c_varset))

        def c_ufd():
            e = UserFieldDecl("u1", value=v)
            return e, (lambda e: e.get_value()), None
        out.append(("UserFieldDecl", c_ufd))

        def c_ud():
            e = UserDefined("d1", value=v)
            return e, (lambda e: e.get_value()), None
        out.append(("UserDefined", c_ud))
        return out

    boundary_repr = {repr(x) for x in vals[: len(vals) - chk.n(250, 4000)]}
    reqs = []
    nonnull = [x for x in vals if x is not None]
    plan = [(v, None) for v in vals]
    for v in vals[:: 2 if chk.tier == "quick" else 1]:
        plan.append((v, rng.choice(nonnull)))
    # overwriting a value with one that Python's == takes for the same but that has another type (an update that
    # "skips unchanged values" keeps the old type): every ordered pair of each group
    for grp in EQUAL_LOOKING:
        for a in grp:
            for b in grp:
                if type(a) is not type(b):
                    plan.append((b, a))
                    chk.count("overwrite", "equal for ==, other type")
    for v, prev in plan:
        nontriv = repr(v) in boundary_repr
        for cname, make in carriers(v, prev):
            case = {"carrier": cname, "value": repr(v), "vclass": vclass(v)}
            if prev is not None:
                case["previous"] = repr(prev)
                chk.count("overwrite", f"{vclass(prev)} -> {vclass(v)}")
            chk.count("carrier", cname)
            chk.count("type", vclass(v))
            chk.case((cname, repr(v), repr(prev)), nontrivial=nontriv or prev is not None, sample=case if nontriv and isinstance(v, (datetime, timedelta, Decimal)) else None)
            try:
                elem, rd1, rd2 = make()
            except (TypeError, ValueError) as e:
                if v is None and cname.split(" ")[0].split(".")[0] in ("VarSet", "UserFieldDecl", "UserDefined"):
                    continue
                chk.fail({**case, "exception": repr(e)}, f"{cname}: storing the value raised {type(e).__name__}")
                continue
            except Exception as e:  # noqa: BLE001
                chk.fail({**case, "exception": repr(e)}, f"{cname}: storing the value raised {type(e).__name__}")
                continue
            try:
                got = rd1(elem)
                got2 = rd2(elem) if rd2 else got
                again = Element.from_tag(elem.serialize())
                got3 = rd1(again)
            except Exception as e:  # noqa: BLE001
                chk.fail({**case, "exception": repr(e), "xml": elem.serialize()[:300]}, f"{cname}: reading the value back raised {type(e).__name__}")
                continue
            bad = None
            for label, g in (("direct", got), ("second reader", got2), ("re-parsed", got3)):
                if not canon_ok(v, g):
                    bad = (label, g)
                    break
            if bad:
                chk.fail({**case, "stage": bad[0], "got": repr(bad[1]), "xml": elem.serialize()[:300]}, f"{cname}: the value read back ({bad[0]}) is not an equal value of the corresponding type")
                continue
            # lexical space of what was written
            target = elem
            if cname.startswith("Table.set_value"):
                target = elem.get_cell((1, 1))
            elif cname.startswith("Row.set_value"):
                target = elem.get_cell(2)
            attrs = dict(target.attributes)
            stale = [a for a in VALUE_ATTRS if a in attrs and a != OWN_ATTR.get(attrs.get("office:value-type"))]
            if stale and prev is not None:
                chk.fail({**case, "attributes": attrs}, f"{cname}: the value attribute of the previous value is still there: {stale}")
                continue
            lx = lexical_ok(attrs)
            if lx:
                chk.fail({**case, "attributes": attrs}, f"{cname}: the attribute written is outside the ODF lexical space: {lx}")
                continue
            vt = attrs.get("office:value-type")
            if vt != expected_type(v) and not (v == "" and vt in (None, "string")):
                chk.fail({**case, "value_type": vt, "expected": expected_type(v)}, f"{cname}: wrong office:value-type for this Python type")
                continue
            if cname in ("Cell(v)", "VarSet"):
                reqs.append((f"tv branch {type_code(v)}", f"ok {vt or 'none'}", case))
            if cname == "Cell(v)" and type(v) is int:
                # the lexical form written for an int and what int() reads from it
                reqs.append((f"tv int {v}", f"ok {core.enc_str(attrs.get('office:value', ''))} {int(attrs.get('office:value', '0'))}", case))

    # --- user-defined metadata + save / reopen -------------------------------------------------------
    doc = Document("text")
    meta = doc.meta
    stored = {}
    i = 0
    for v in vals:
        if v is None:
            continue
        i += 1
        name = f"k{i}"
        case = {"carrier": "user-defined metadata", "value": repr(v), "vclass": vclass(v)}
        chk.count("carrier", "user-defined metadata")
        chk.case(("meta", repr(v)), nontrivial=repr(v) in boundary_repr)
        try:
            if i % 2:
                # the name already holds a value of (usually) another type
                prev = rng.choice(nonnull)
                case["previous"] = repr(prev)
                chk.count("overwrite", f"meta {vclass(prev)} -> {vclass(v)}")
                if i % 6 == 1 and type(v) in (bool, int, float, Decimal):
                    # a previous value that == takes for the same, of another type
                    alts = [a for grp in EQUAL_LOOKING[:2] if any(type(a) is type(v) and a == v for a in grp) for a in grp if type(a) is not type(v)]
                    if alts:
                        prev = rng.choice(alts)
                        case["previous"] = repr(prev)
                meta.set_user_defined_metadata(name, prev)
            meta.set_user_defined_metadata(name, v)
            got = meta.get_user_defined_metadata()[name]
        except Exception as e:  # noqa: BLE001
            chk.fail({**case, "exception": repr(e)}, f"user-defined metadata: raised {type(e).__name__}")
            continue
        if not canon_ok(v, got) and not (isinstance(v, (int, float)) and not isinstance(v, bool) and isinstance(got, Decimal) and float(got) == float(v)):
            chk.fail({**case, "got": repr(got)}, "user-defined metadata: the value read back is not an equal value of the corresponding type")
            continue
        stored[name] = v
    # the same through the whole-mapping assignment `meta.user_defined_metadata = {...}`, on names that already hold a value
    # (random other value, or one that == takes for the same), others being left out of the mapping (they must go)
    pairs = [(rng.choice(nonnull), rng.choice(nonnull)) for _ in range(chk.n(60, 600))]
    for grp in EQUAL_LOOKING:
        pairs += [(a, b) for a in grp for b in grp if type(a) is not type(b)]
    for k in range(0, len(pairs), 4):
        chunk = pairs[k:k + 4]
        doc3 = Document("text")
        m3 = doc3.meta
        try:
            first = {f"n{j}": a for j, (a, _b) in enumerate(chunk)}
            first["gone"] = "x"
            if k % 8:
                m3.user_defined_metadata = first
            else:
                for nm, a in first.items():
                    m3.set_user_defined_metadata(nm, a)
            second = {f"n{j}": b for j, (_a, b) in enumerate(chunk)}
            m3.user_defined_metadata = second
            got_all = m3.get_user_defined_metadata()
            bio = io.BytesIO(); doc3.save(bio); bio.seek(0)
            again_all = Document(bio).meta.get_user_defined_metadata()
        except Exception as e:  # noqa: BLE001
            chk.fail({"carrier": "meta.user_defined_metadata = mapping", "pairs": repr(chunk), "exception": repr(e), "vclass": "exception"},
                     f"assigning the mapping of user-defined metadata raised {type(e).__name__}")
            continue
        for j, (a, b) in enumerate(chunk):
            chk.count("carrier", "meta.user_defined_metadata = mapping")
            chk.count("overwrite", f"mapping {vclass(a)} -> {vclass(b)}")
            chk.case(("meta-map", repr(a), repr(b)), nontrivial=True)
            for where, allv in (("", got_all), (" + save + reopen", again_all)):
                g = allv.get(f"n{j}")
                if not canon_ok(b, g) and not (isinstance(b, (int, float)) and not isinstance(b, bool) and isinstance(g, Decimal) and float(g) == float(b)):
                    chk.fail({"carrier": "meta.user_defined_metadata = mapping" + where, "previous": repr(a), "value": repr(b), "vclass": vclass(b), "got": repr(g)},
                             "user-defined metadata assigned as a mapping: the value read back is not an equal value of the corresponding type")
                    break
        if set(got_all) != set(second):
            chk.fail({"carrier": "meta.user_defined_metadata = mapping", "assigned": sorted(second), "holds": sorted(got_all), "vclass": "names"},
                     "after assigning the mapping the metadata hold other names than the mapping")
    # bulk writes: values that == takes for the same but that have different types, SIDE BY SIDE in one row
    # (Table.set_values / Row.set_values / set_row_values: a writer that merges "equal" neighbours keeps one type for the run)
    import itertools

    from odfdo import Row as _Row
    rows_ = []
    for grp in EQUAL_LOOKING[:2]:
        for k in (2, 3):
            rows_ += [list(p_) for p_ in itertools.permutations(grp, k)]
    rows_ += [[rng.choice(nonnull) for _ in range(rng.randint(2, 5))] for _ in range(chk.n(40, 400))]
    for line in rows_:
        for cname, write, read in (
            ("Table.set_values", lambda t_, l_: t_.set_values([l_]), lambda t_: t_.get_values()[0]),
            ("Table.set_row_values", lambda t_, l_: t_.set_row_values(0, l_), lambda t_: t_.get_row_values(0)),
            ("Row.set_values", lambda t_, l_: t_.set_row(0, (lambda r_: (r_.set_values(l_), r_)[1])(_Row())), lambda t_: t_.get_row(0).get_values()),
        ):
            case = {"carrier": cname + " (one row)", "value": repr(line), "vclass": "+".join(vclass(v) for v in line)}
            chk.count("carrier", cname + " (one row)")
            chk.case((cname, repr(line)), nontrivial=True)
            try:
                tb = Table("B")
                write(tb, line)
                got = read(tb)
                again = read(Element.from_tag(tb.serialize()))
            except Exception as e:  # noqa: BLE001
                chk.fail({**case, "exception": repr(e)}, f"{cname}: writing a row of values raised {type(e).__name__}")
                continue
            for where, g_ in (("", got), (" after re-parse", again)):
                if len(g_) < len(line) or not all(canon_ok(v, x) for v, x in zip(line, g_)):
                    chk.fail({**case, "got": repr(g_)}, f"{cname}: a row of values written at once is not read back value by value, type by type{where}")
                    break
    # cells in a spreadsheet saved and reopened
    sdoc = Document("spreadsheet")
    sdoc.body.clear()
    t = Table("V")
    sdoc.body.append(t)
    sample = [v for v in vals if v is not None][:: max(1, len(vals) // chk.n(150, 1200))]
    for y, v in enumerate(sample):
        t.set_value((0, y), v)
    try:
        bio = io.BytesIO(); sdoc.save(bio); bio.seek(0)
        t2 = Document(bio).body.get_table(0)
        for y, v in enumerate(sample):
            g = t2.get_value((0, y))
            chk.case(("reopen", repr(v)), nontrivial=True)
            if not canon_ok(v, g):
                chk.fail({"carrier": "Table.set_value + save + reopen", "value": repr(v), "vclass": vclass(v), "got": repr(g)}, "the value read after save + reopen is not an equal value of the corresponding type")
        bio = io.BytesIO(); doc.save(bio); bio.seek(0)
        m2 = Document(bio).meta.get_user_defined_metadata()
        for name, v in stored.items():
            g = m2.get(name)
            if not canon_ok(v, g) and not (isinstance(v, (int, float)) and not isinstance(v, bool) and isinstance(g, Decimal) and float(g) == float(v)):
                chk.fail({"carrier": "user-defined metadata + save + reopen", "value": repr(v), "vclass": vclass(v), "got": repr(g)}, "metadata value read after save + reopen differs")
    except Exception as e:  # noqa: BLE001
        chk.fail({"carrier": "save + reopen", "exception": repr(e), "vclass": "exception"}, f"save + reopen raised {type(e).__name__}")

    answers = core.run_driver([q for q, _, _ in reqs])
    for (q, exp, case), ans in zip(reqs, answers):
        if exp != ans:
            chk.disagree({**case, "line": q}, f"impl wrote value-type {exp!r}, dispatch model says {ans!r}")


def type_code(v) -> str:
    """the Python type lattice point of a value (bool < int, datetime < date)"""
    if v is None:
        return "none"
    if isinstance(v, bool):
        return "bool"
    if isinstance(v, int):
        return "int"
    if isinstance(v, float):
        return "float"
    if isinstance(v, Decimal):
        return "decimal"
    if isinstance(v, str):
        return "str"
    if isinstance(v, datetime):
        return "datetime"
    if isinstance(v, date):
        return "date"
    if isinstance(v, timedelta):
        return "timedelta"
    return "other"


def replay(obj: dict) -> int:
    print(obj)
    return 0
