"""Shared table machinery for C01 / C02 / C07 / C08 / C17:
run-length generators, operation alphabet, the reference grid (plain list of lists, the
model-free oracle), the implementation runner, an independent lxml expansion of
table:table, structural checks, encoding of histories to driver lines."""
from __future__ import annotations

import copy

NS_TABLE = "urn:oasis:names:tc:opendocument:xmlns:table:1.0"
NS_OFFICE = "urn:oasis:names:tc:opendocument:xmlns:office:1.0"
NS_TEXT = "urn:oasis:names:tc:opendocument:xmlns:text:1.0"
TB = "{%s}" % NS_TABLE
OF = "{%s}" % NS_OFFICE

# cell payloads: (value, style); value None = empty cell.  Interned to naturals for the driver:
VALUES = [None, "a", "b", "c", "d", 7, 42, 0, True, 1, False]      # 0 / False and True / 1: equal for Python's ==, different cell values: every comparison goes through canon()
STYLES = [None, "ce1"]
EMPTY = (None, None)


def canon(v):
    """type-exact form of a value / list of values: booleans never compare equal to numbers"""
    if isinstance(v, bool):
        return ("bool", v)
    if isinstance(v, (list, tuple)):
        return tuple(canon(x) for x in v)
    if isinstance(v, dict):
        return tuple(sorted((k, canon(x)) for k, x in v.items()))
    return v


def same(a, b) -> bool:
    return canon(a) == canon(b)


def pay_id(p) -> int:
    v, s = p
    vi = next(i for i, w in enumerate(VALUES) if type(w) is type(v) and w == v)      # 0 and False are different payloads
    return vi * len(STYLES) + STYLES.index(s)


def id_pay(i: int):
    return (VALUES[i // len(STYLES)], STYLES[i % len(STYLES)])


# ---------------------------------------------------------------------------------------
# reference grid
# ---------------------------------------------------------------------------------------


class Grid:
    """uncompressed list-of-lists table: rows are ragged lists of payloads; ncols is the
    number of declared columns (never smaller than the longest row after an API call)"""

    def __init__(self):
        self.rows: list[list] = []
        self.ncols = 0

    def clone(self):
        return copy.deepcopy(self)

    def upd(self, r=None):
        m = max([len(r) for r in self.rows], default=0) if r is None else len(r)
        self.ncols = max(self.ncols, m)

    def values(self):
        return [[c[0] for c in r] + [None] * (self.ncols - len(r)) for r in self.rows]

    def cells(self):
        return [list(r) for r in self.rows]

    @property
    def size(self):
        return (self.ncols, len(self.rows))

    def pad_rows(self, n):
        while len(self.rows) < n:
            self.rows.append([])

    @staticmethod
    def pad_row(r, n):
        while len(r) < n:
            r.append(EMPTY)


def norm(v: int, n: int) -> int:
    """negative coordinates count from the current end (coordinates.increment)"""
    if v >= 0:
        return v
    if n == 0:
        return 0
    while v < 0:
        v += n
    return v


def ref_apply(g: Grid, op: dict) -> None:
    """the operation on the plain grid (reference semantics, DESIGN.md C01 'Reading')"""
    k = op["op"]
    W, H = g.ncols, len(g.rows)
    if k in ("set_value", "set_cell"):
        x, y = norm(op["x"], W), norm(op["y"], H)
        rep = op.get("rep", 1)
        g.pad_rows(y + 1)
        r = g.rows[y]
        g.pad_row(r, x)
        r[x:x + rep] = [op["cell"]] * rep
        g.upd(r)
    elif k == "set_row":
        y = norm(op["y"], H)
        rep = op.get("rep", 1)
        g.pad_rows(y)
        g.rows[y:y + rep] = [list(op["cells"]) for _ in range(rep)]
        g.ncols = max(g.ncols, len(op["cells"]))
        if H == 0 and g.ncols == 0:
            pass
    elif k == "insert_row":
        y = norm(op["y"], H)
        rep = op.get("rep", 1)
        g.pad_rows(y)
        g.rows[y:y] = [list(op["cells"]) for _ in range(rep)]
        g.ncols = max(g.ncols, len(op["cells"]))
    elif k == "append_row":
        rep = op.get("rep", 1)
        g.rows.extend([list(op["cells"]) for _ in range(rep)])
        g.ncols = max(g.ncols, len(op["cells"]))
    elif k == "delete_row":
        y = norm(op["y"], H)
        if y < len(g.rows):
            del g.rows[y]
    elif k == "insert_cell":
        x, y = norm(op["x"], W), norm(op["y"], H)
        rep = op.get("rep", 1)
        g.pad_rows(y + 1)
        r = g.rows[y]
        g.pad_row(r, x)
        r[x:x] = [op["cell"]] * rep
        g.upd(r)
    elif k == "append_cell":
        y = norm(op["y"], H)
        rep = op.get("rep", 1)
        g.pad_rows(y + 1)
        g.rows[y].extend([op["cell"]] * rep)
        g.upd(g.rows[y])
    elif k == "delete_cell":
        x, y = norm(op["x"], W), norm(op["y"], H)
        if y < len(g.rows) and x < len(g.rows[y]):
            del g.rows[y][x]
    elif k == "insert_column":
        x = norm(op["x"], W)
        rep = op.get("rep", 1)
        if x > g.ncols:
            g.ncols = x
        g.ncols += rep
        for r in g.rows:
            if len(r) > x:
                r[x:x] = [EMPTY] * rep
    elif k == "append_column":
        g.ncols += op.get("rep", 1)
    elif k == "delete_column":
        x = norm(op["x"], W)
        if x < g.ncols:
            g.ncols -= 1
            for r in g.rows:
                if len(r) > x:
                    del r[x]
    elif k in ("set_values", "set_cells"):
        x, y = norm(op["x"], W), norm(op["y"], H)
        for dy, line in enumerate(op["matrix"]):
            if not line:
                continue
            yy = y + dy
            g.pad_rows(yy + 1)
            r = g.rows[yy]
            xx = x
            for cell, rep in line:
                g.pad_row(r, xx)
                r[xx:xx + rep] = [cell] * rep
                xx += rep
            g.upd(r)
    elif k in ("set_row_values", "set_row_cells"):
        y = norm(op["y"], H)
        cells = []
        for cell, rep in op["line"]:
            cells += [cell] * rep
        g.pad_rows(y)
        g.rows[y:y + 1] = [cells]
        g.ncols = max(g.ncols, len(cells))
    elif k == "set_column_values":
        x = norm(op["x"], W)
        for r, cell in zip(g.rows, op["cells"]):
            g.pad_row(r, x)
            r[x:x + 1] = [cell]
            g.upd(r)
    elif k == "rstrip":
        def emp(c):
            return c[0] is None and (op["aggr"] or c[1] is None)
        while g.rows and all(emp(c) for c in g.rows[-1]):
            g.rows.pop()
        for r in g.rows:
            while r and emp(r[-1]):
                r.pop()
        g.ncols = min(g.ncols, max([len(r) for r in g.rows], default=0))
    elif k == "transpose":
        w = max([len(r) for r in g.rows], default=0)
        n = len(g.rows)
        g.rows = [[(r[i] if i < len(r) else EMPTY) for r in g.rows] for i in range(w)]
        g.ncols = max(1, n) if g.rows else 0
    elif k == "read":
        pass
    else:
        raise KeyError(k)
    # adding the first row(s) to a table without columns declares its columns (at least one,
    # even for an empty row)
    # (the code does it whenever a row is appended at the end of a table without columns; a row
    # inserted in the middle of a column-less table - a state only reachable by deleting the last
    # column - declares nothing)
    appended = len(g.rows) > H and k not in ("transpose", "rstrip") and not (k == "insert_row" and norm(op["y"], H) < H)
    if appended and g.ncols == 0:
        g.ncols = 1


# ---------------------------------------------------------------------------------------
# implementation side
# ---------------------------------------------------------------------------------------


# the caller's argument objects may be used again in a later call: every API entry that takes a Cell / Row stores a copy
# (clone=True is the default), so handing over the same object twice must be harmless.  POOL, when it is a dict, makes the
# builders give back the object built earlier in the same history for the same (payload, repeat).
POOL = None


def _pooled(kind, key, build):
    if POOL is None:
        return build()
    k = (kind, canon(key))
    if k not in POOL:
        POOL[k] = build()
    return POOL[k]


def mk_cell(p, rep=1):
    return _pooled("cell", (p, rep), lambda: _mk_cell(p, rep))


def _mk_cell(p, rep=1):
    from odfdo import Cell

    v, s = p
    if v is not None and not v:
        # a falsy but real value (0), written through the property setter: the text is stored inline, the
        # cell has no text:p child - what `cell.value = 0` and some producers give
        c = Cell()
        c.value = v
        if s:
            c.style = s
        if rep > 1:
            c.repeated = rep
        return c
    return Cell(v, style=s, repeated=rep if rep > 1 else None)


def mk_row(cells, rep=1):
    return _pooled("row", (cells, rep), lambda: _mk_row(cells, rep))


def _mk_row(cells, rep=1):
    """cells: list of payloads (already expanded); built with some run-length compression"""
    from odfdo import Row

    row = Row()
    i = 0
    while i < len(cells):
        j = i
        while j + 1 < len(cells) and same(cells[j + 1], cells[i]):
            j += 1
        row.append_cell(_mk_cell(cells[i], j - i + 1))
        i = j + 1
    if rep > 1:
        row.repeated = rep
    return row


def table_from_rle(cols, rows, how="api"):
    """cols: [(style, rep)], rows: [([(payload, rep)], rowrep)] -> odfdo Table"""
    from odfdo import Element, Table

    parts = ['<table:table table:name="T">']
    for st, rep in cols:
        a = f' table:number-columns-repeated="{rep}"' if rep > 1 else ""
        parts.append(f"<table:table-column{a}/>")
    for cells, rrep in rows:
        a = f' table:number-rows-repeated="{rrep}"' if rrep > 1 else ""
        parts.append(f"<table:table-row{a}>")
        for (v, s), rep in cells:
            at = f' table:number-columns-repeated="{rep}"' if rep > 1 else ""
            if s:
                at += f' table:style-name="{s}"'
            if v is None:
                parts.append(f"<table:table-cell{at}/>")
            elif isinstance(v, str):
                parts.append(f'<table:table-cell office:value-type="string" calcext:value-type="string"{at}><text:p>{v}</text:p></table:table-cell>')
            elif isinstance(v, bool):         # these carry no text:p child: the value attribute alone keeps them
                parts.append(f'<table:table-cell office:value-type="boolean" office:boolean-value="{"true" if v else "false"}"{at}/>')
            elif v == 0:
                parts.append(f'<table:table-cell office:value-type="float" office:value="0"{at}/>')
            else:
                parts.append(f'<table:table-cell office:value-type="float" calcext:value-type="float" office:value="{v}"{at}><text:p>{v}</text:p></table:table-cell>')
        parts.append("</table:table-row>")
    parts.append("</table:table>")
    return Element.from_tag("".join(parts))


def grid_from_rle(cols, rows) -> Grid:
    g = Grid()
    g.ncols = sum(rep for _, rep in cols)
    for cells, rrep in rows:
        line = []
        for p, rep in cells:
            line += [p] * rep
        for _ in range(rrep):
            g.rows.append(list(line))
    return g


def expand_line(line):
    out = []
    for cell, rep in line:
        out += [cell] * rep
    return out


def impl_apply(t, op: dict) -> None:
    from odfdo import Column, Row

    k = op["op"]
    if k == "set_value":
        v, s = op["cell"]
        t.set_value((op["x"], op["y"]), v, style=s)
    elif k == "set_cell" and op.get("from_read"):
        x, y = op["x"], op["y"]
        if op["from_read"] == "Row.traverse":
            c = next(iter(t.get_row(y).traverse(start=x, end=x)))
        elif op["from_read"] == "Row.get_cells":
            c = t.get_row(y).get_cells((x, max(x, t.width - 1)))[0]
        else:
            c = t.get_cells((x, y, x, y))[0][0]
        t.set_cell((x, y), c)
    elif k == "set_cell":
        t.set_cell((op["x"], op["y"]), mk_cell(op["cell"], op.get("rep", 1)))
    elif k == "set_row":
        t.set_row(op["y"], mk_row(op["cells"], op.get("rep", 1)))
    elif k == "insert_row":
        t.insert_row(op["y"], mk_row(op["cells"], op.get("rep", 1)))
    elif k == "append_row":
        t.append_row(mk_row(op["cells"], op.get("rep", 1)))
    elif k == "delete_row":
        t.delete_row(op["y"])
    elif k == "insert_cell":
        t.insert_cell((op["x"], op["y"]), mk_cell(op["cell"], op.get("rep", 1)))
    elif k == "append_cell":
        t.append_cell(op["y"], mk_cell(op["cell"], op.get("rep", 1)))
    elif k == "delete_cell":
        t.delete_cell((op["x"], op["y"]))
    elif k == "insert_column":
        t.insert_column(op["x"], Column(repeated=op.get("rep", 1) if op.get("rep", 1) > 1 else None))
    elif k == "append_column":
        t.append_column(Column(repeated=op.get("rep", 1) if op.get("rep", 1) > 1 else None))
    elif k == "delete_column":
        t.delete_column(op["x"])
    elif k == "set_values":
        m = [[c[0] for c in expand_line(line)] for line in op["matrix"]]
        t.set_values(m, (op["x"], op["y"]))
    elif k == "set_cells":
        m = [[mk_cell(c, rep) for c, rep in line] for line in op["matrix"]]
        t.set_cells(m, (op["x"], op["y"]))
    elif k == "set_row_values":
        t.set_row_values(op["y"], [c[0] for c in expand_line(op["line"])])
    elif k == "set_row_cells":
        t.set_row_cells(op["y"], [mk_cell(c, rep) for c, rep in op["line"]])
    elif k == "set_column_values":
        t.set_column_values(op["x"], [c[0] for c in op["cells"]])
    elif k == "rstrip":
        t.rstrip(aggressive=op["aggr"])
    elif k == "transpose":
        t.transpose()
    elif k == "read":
        do_read(t, op)
    else:
        raise KeyError(k)


def do_read(t, op):
    """cache-populating reads (C02): results are not compared here"""
    r = op["read"]
    try:
        if r == "get_row":
            t.get_row(op["y"], clone=op.get("clone", True))
        elif r == "get_cell":
            t.get_cell((op["x"], op["y"]), clone=op.get("clone", True))
        elif r == "get_value":
            t.get_value((op["x"], op["y"]))
        elif r == "traverse":
            for row in t.traverse():
                for _c in row.traverse():
                    pass
        elif r == "get_column":
            t.get_column(op["x"])
        elif r == "get_values":
            t.get_values()
        elif r == "get_column_cells":
            t.get_column_cells(op["x"])
    except (ValueError, IndexError):
        pass


# ---------------------------------------------------------------------------------------
# independent reader of the serialised XML (lxml only)
# ---------------------------------------------------------------------------------------


def lxml_table(xml: str):
    from lxml import etree

    root = etree.fromstring(
        '<r xmlns:table="%s" xmlns:office="%s" xmlns:text="%s" xmlns:calcext="urn:org:documentfoundation:names:experimental:calc:xmlns:calcext:1.0" '
        'xmlns:draw="urn:oasis:names:tc:opendocument:xmlns:drawing:1.0" xmlns:xlink="http://www.w3.org/1999/xlink" xmlns:svg="urn:oasis:names:tc:opendocument:xmlns:svg-compatible:1.0">%s</r>'
        % (NS_TABLE, NS_OFFICE, NS_TEXT, xml)
    )
    return root[0]


def cell_payload(c):
    vt = c.get(OF + "value-type")
    st = c.get(TB + "style-name")
    if vt is None:
        return (None, st)
    if vt == "string":
        sv = c.get(OF + "string-value")
        if sv is None:
            sv = "\n".join("".join(p.itertext()) for p in c if p.tag == "{%s}p" % NS_TEXT)
        return (sv, st)
    if vt in ("float", "percentage", "currency"):
        raw = c.get(OF + "value")
        f = float(raw)
        return (int(f) if f == int(f) else f, st)
    if vt == "boolean":
        return (c.get(OF + "boolean-value") == "true", st)
    return ((vt, c.get(OF + "date-value") or c.get(OF + "time-value")), st)


def rep_attr(e, name):
    raw = e.get(TB + name)
    if raw is None:
        return 1, None
    return int(raw), raw


def lxml_runs(tbl):
    """(cols, rows, problems): run-length view and structural problems (C07 rules)"""
    problems = []
    cols, rows = [], []
    seen_row = False

    def walk(node):
        nonlocal seen_row
        for ch in node:
            tag = ch.tag
            if tag == TB + "table-column":
                if seen_row:
                    problems.append("column declaration after a row")
                n, raw = rep_attr(ch, "number-columns-repeated")
                if raw is not None and n < 2:
                    problems.append(f"number-columns-repeated={raw} on a column")
                cols.append((ch.get(TB + "style-name"), n))
            elif tag in (TB + "table-columns", TB + "table-header-columns", TB + "table-column-group",
                         TB + "table-rows", TB + "table-header-rows", TB + "table-row-group"):
                walk(ch)
            elif tag == TB + "table-row":
                seen_row = True
                n, raw = rep_attr(ch, "number-rows-repeated")
                if raw is not None and n < 2:
                    problems.append(f"number-rows-repeated={raw} on a row")
                cells = []
                for c in ch:
                    if c.tag not in (TB + "table-cell", TB + "covered-table-cell"):
                        problems.append(f"row child {c.tag} is not a cell")
                        continue
                    cn, craw = rep_attr(c, "number-columns-repeated")
                    if craw is not None and cn < 2:
                        problems.append(f"number-columns-repeated={craw} on a cell")
                    cells.append((cell_payload(c), cn))
                rows.append((cells, n))
    walk(tbl)
    return cols, rows, problems


def lxml_grid(xml: str):
    cols, rows, problems = lxml_runs(lxml_table(xml))
    g = grid_from_rle(cols, rows)
    return g, cols, rows, problems


# ---------------------------------------------------------------------------------------
# generators
# ---------------------------------------------------------------------------------------

REPS = [1, 1, 1, 2, 3, 7]


def gen_payload(rng, allow_empty=True):
    v = rng.choice(VALUES if allow_empty else VALUES[1:])
    s = rng.choice([None, None, None, "ce1"])
    return (v, s)


def gen_line(rng, maxlen=4):
    """run-length line [(payload, rep)]"""
    return [(gen_payload(rng), rng.choice(REPS[:5])) for _ in range(rng.randint(0, maxlen))]


def gen_rle(rng):
    nrows = rng.choice([0, 1, 2, 2, 3, 4])
    rows = []
    for _ in range(nrows):
        rows.append((gen_line(rng, 3), rng.choice(REPS)))
    width = max([sum(rep for _, rep in cells) for cells, _ in rows], default=0)
    if not rows:
        cols = [] if rng.random() < 0.7 else [(None, rng.choice(REPS))]
    else:
        # declared columns cover the widest row, in 1-3 runs
        total = max(width, 1) + rng.choice([0, 0, 1, 2])
        cols = []
        left = total
        while left > 0:
            n = rng.randint(1, left)
            cols.append((None, n))
            left -= n
    return cols, rows


def gen_merged_table(rng):
    """a table the way office applications write merged cells: the head carries number-columns/rows-spanned, the cells it
    covers are table:covered-table-cell elements, stored as ONE repeated run where neighbours are alike (set_span never
    writes that), styled or not, spans preferably touching the right / bottom edge; trailing empty cells and rows possible.
    Returns (odfdo Table parsed from the XML, description)."""
    from odfdo import Element

    w, h = rng.randint(2, 6), rng.randint(1, 5)
    sparse = rng.random() < 0.5        # mostly empty sheets: rows whose last cells are empty, so that the merged row is the widest one
    vals = [[((None if rng.random() < 0.8 else "a") if sparse else rng.choice([None, None, "a", "b", 7]),
              (None if rng.random() < 0.9 else "ce1") if sparse else rng.choice([None, None, "ce1"])) for _ in range(w)] for _ in range(h)]
    kind = [["cell"] * w for _ in range(h)]
    span = {}
    areas = []
    for _ in range(rng.randint(1, 2)):
        x = rng.choice([rng.randrange(w), max(0, w - rng.randint(1, 3))])
        y = rng.randrange(h)
        z = w - 1 if rng.random() < 0.6 else rng.randrange(x, w)
        tt = rng.choice([y, y, min(h - 1, y + 1), h - 1])
        if (x, y) == (z, tt) or any(kind[j][i] != "cell" or (i, j) in span for j in range(y, tt + 1) for i in range(x, z + 1)):
            continue
        st = rng.choice([None, "ce1", "ce1"])
        for j in range(y, tt + 1):
            for i in range(x, z + 1):
                kind[j][i] = "covered"
                vals[j][i] = (None, st)
        kind[y][x] = "cell"
        vals[y][x] = (rng.choice([None, "t", "t"]), st)
        span[(x, y)] = (z - x + 1, tt - y + 1)
        areas.append((x, y, z, tt))
    tail_cols = rng.choice([0, 0, 1, 3])
    parts = ['<table:table table:name="M">', f'<table:table-column table:number-columns-repeated="{w + tail_cols}"/>' if w + tail_cols > 1 else "<table:table-column/>"]
    # stacked identical rows are stored as ONE repeated row element, as office applications do
    stacked = rng.random() < 0.3 and all(rs == 1 for (_cs, rs) in span.values())
    if stacked and h >= 1:
        j0 = rng.randrange(h)
        n = rng.randint(2, 3)
        vals = vals[:j0 + 1] + [list(vals[j0]) for _ in range(n - 1)] + vals[j0 + 1:]
        kind = kind[:j0 + 1] + [list(kind[j0]) for _ in range(n - 1)] + kind[j0 + 1:]
        newspan, newareas = {}, []
        for (x, y), (cs, rs) in span.items():
            ys = [y] if y < j0 else ([y + n - 1] if y > j0 else [j0 + k for k in range(n)])
            for yy in ys:
                newspan[(x, yy)] = (cs, rs)
                newareas.append((x, yy, x + cs - 1, yy))
        span, areas, h = newspan, newareas, h + n - 1
    row_xml = []
    for j in range(h):
        parts_row = []
        parts_keep, parts = parts, parts_row
        parts.append("<table:table-row>")
        i = 0
        while i < w:
            k = i
            while (k + 1 < w and kind[j][k + 1] == kind[j][i] and same(vals[j][k + 1], vals[j][i]) and (k + 1, j) not in span and (i, j) not in span):
                k += 1
            n = k - i + 1
            v, st = vals[j][i]
            tag = "table:covered-table-cell" if kind[j][i] == "covered" else "table:table-cell"
            at = f' table:number-columns-repeated="{n}"' if n > 1 else ""
            if st:
                at += f' table:style-name="{st}"'
            if (i, j) in span:
                cs, rs = span[(i, j)]
                at += f' table:number-columns-spanned="{cs}" table:number-rows-spanned="{rs}"'
            if v is None:
                parts.append(f"<{tag}{at}/>")
            elif isinstance(v, str):
                parts.append(f'<{tag} office:value-type="string"{at}><text:p>{v}</text:p></{tag}>')
            else:
                parts.append(f'<{tag} office:value-type="float" office:value="{v}"{at}><text:p>{v}</text:p></{tag}>')
            i = k + 1
        if tail_cols and (rng.random() < 0.7 if not stacked else True):
            parts.append(f'<table:table-cell table:number-columns-repeated="{tail_cols}"/>' if tail_cols > 1 else "<table:table-cell/>")
        parts.append("</table:table-row>")
        parts = parts_keep
        row_xml.append("".join(parts_row))
    k = 0
    while k < len(row_xml):
        m = k
        while stacked and m + 1 < len(row_xml) and row_xml[m + 1] == row_xml[k]:
            m += 1
        if m > k:
            parts.append(row_xml[k].replace("<table:table-row>", f'<table:table-row table:number-rows-repeated="{m - k + 1}">', 1))
        else:
            parts.append(row_xml[k])
        k = m + 1
    if rng.random() < 0.4:
        n = rng.randint(1, 3)
        parts.append(f'<table:table-row table:number-rows-repeated="{n}"><table:table-cell table:number-columns-repeated="{w + tail_cols}"/></table:table-row>'
                     if n > 1 and w + tail_cols > 1 else "<table:table-row><table:table-cell/></table:table-row>")
    parts.append("</table:table>")
    xml = "".join(parts)
    return Element.from_tag(xml), {"merged_xml": xml, "areas": areas}


def pick_index(rng, n, neg_ok=True):
    """positions weighted towards run boundaries, the edge and beyond"""
    r = rng.random()
    if n == 0:
        return rng.choice([0, 0, 1, 2])
    if r < 0.55:
        return rng.randrange(n)
    if r < 0.7:
        return n - 1
    if r < 0.82:
        return n
    if r < 0.92:
        return n + rng.choice([1, 2, 3])
    if neg_ok:
        return -rng.randint(1, n)
    return 0


MUTATORS = ["set_value", "set_cell", "set_row", "insert_row", "append_row", "delete_row", "insert_cell", "append_cell",
            "delete_cell", "insert_column", "append_column", "delete_column", "set_values", "set_cells", "set_row_values",
            "set_row_cells", "set_column_values"]
WEIGHTS = [5, 6, 6, 4, 2, 4, 4, 3, 4, 4, 1, 4, 3, 3, 2, 2, 1]


_LAST_CELL = None


def gen_op(rng, g: Grid) -> dict:
    W, H = g.ncols, len(g.rows)
    k = rng.choices(MUTATORS, WEIGHTS)[0]
    x = pick_index(rng, W)
    y = pick_index(rng, H)
    rep = rng.choice(REPS)
    if k == "set_value":
        return {"op": k, "x": x, "y": y, "cell": gen_payload(rng)}
    if k == "set_cell" and W and H and rng.random() < 0.25:
        # read - push back: the Cell object handed to set_cell is the one a RANGED read starting at x returned for (x, y) ("copies
        # are returned, use set_cell() to push them back"): it stands for one cell, whatever run it was read from
        y0 = rng.randrange(H)
        x0 = rng.randrange(len(g.rows[y0])) if g.rows[y0] else None          # a cell the row stores (a ranged read yields stored cells only)
        if x0 is not None:
            return {"op": k, "x": x0, "y": y0, "cell": g.rows[y0][x0], "rep": 1, "from_read": rng.choice(["Row.traverse", "Row.get_cells", "Table.get_cells"])}
    if k in ("set_cell", "insert_cell", "append_cell"):
        # often the very cell (payload, repeat) of the previous cell operation again: with argument objects pooled (POOL) the caller
        # then hands over the SAME Cell object to two successive calls
        global _LAST_CELL
        if _LAST_CELL is not None and rng.random() < 0.4:
            cell, rep = _LAST_CELL
        else:
            cell = gen_payload(rng)
        _LAST_CELL = (cell, rep)
        if k == "append_cell":
            return {"op": k, "y": y, "cell": cell, "rep": rep}
        return {"op": k, "x": x, "y": y, "cell": cell, "rep": rep}
    if k in ("set_row", "insert_row", "append_row"):
        cells = expand_line(gen_line(rng, 3))
        return {"op": k, "y": y, "cells": cells, "rep": rep}
    if k in ("delete_row",):
        return {"op": k, "y": y}
    if k == "delete_cell":
        return {"op": k, "x": x, "y": y}
    if k in ("insert_column",):
        return {"op": k, "x": x, "rep": rep}
    if k == "append_column":
        return {"op": k, "rep": rep}
    if k == "delete_column":
        return {"op": k, "x": x}
    if k == "set_values":
        m = [[(gen_payload(rng)[0:1] + (None,), 1) for _ in range(rng.randint(0, 3))] for _ in range(rng.randint(1, 3))]
        return {"op": k, "x": max(x, 0) if x >= 0 else x, "y": y, "matrix": m}
    if k == "set_cells":
        m = [gen_line(rng, 3) for _ in range(rng.randint(1, 3))]
        return {"op": k, "x": x, "y": y, "matrix": m}
    if k == "set_row_values":
        return {"op": k, "y": y, "line": [((gen_payload(rng)[0], None), 1) for _ in range(rng.randint(0, 4))]}
    if k == "set_row_cells":
        return {"op": k, "y": y, "line": gen_line(rng, 3)}
    if k == "set_column_values":
        return {"op": k, "x": x, "cells": [(gen_payload(rng)[0], None) for _ in range(H)]}
    raise KeyError(k)


READS = ["get_row", "get_cell", "get_value", "traverse", "get_column", "get_values", "get_column_cells"]


def gen_read(rng, g: Grid) -> dict:
    W, H = g.ncols, len(g.rows)
    return {"op": "read", "read": rng.choice(READS), "x": rng.randrange(W + 2), "y": rng.randrange(H + 2), "clone": rng.random() < 0.5}


def nontrivial_op(g_before: Grid, rle_rows, op: dict) -> bool:
    """the op carries a repeat >= 2, or addresses the edge / beyond / a negative index"""
    if op.get("rep", 1) >= 2:
        return True
    W, H = g_before.ncols, len(g_before.rows)
    for key, n in (("x", W), ("y", H)):
        if key in op and (op[key] < 0 or op[key] >= n):
            return True
    if op["op"] in ("set_cells", "set_row_cells") :
        return True
    return False


# ---------------------------------------------------------------------------------------
# history runner
# ---------------------------------------------------------------------------------------


def observe_live(t):
    return {"size": tuple(t.size), "values": t.get_values()}


def observe_fresh(t):
    from odfdo import Element

    t2 = Element.from_tag(t.serialize())
    return {"size": tuple(t2.size), "values": t2.get_values()}


def gen_history(rng, max_ops=8, reads=True):
    """initial RLE + a list of ops generated against the evolving reference grid"""
    global _LAST_CELL
    _LAST_CELL = None
    cols, rows = gen_rle(rng)
    how = rng.choice(["xml", "xml", "api"])
    g = grid_from_rle(cols, rows)
    ops = []
    for _ in range(rng.randint(1, max_ops)):
        if reads and rng.random() < 0.5:
            ops.append(gen_read(rng, g))
        op = gen_op(rng, g)
        ops.append(op)
        ref_apply(g, op)
        if g.rows and g.ncols == 0:
            # rows but no declared column (only reachable by deleting the last column): what a later
            # operation should declare is not specified by the property; the history ends here
            break
    return {"cols": cols, "rows": rows, "how": how, "ops": ops}


def build_initial(h):
    """the initial table, by parsing XML or through the API (append_row of compressed rows)"""
    from odfdo import Column, Table

    if h["how"] == "xml":
        return table_from_rle(h["cols"], h["rows"])
    t = Table("T")
    for cells, rrep in h["rows"]:
        from odfdo import Row

        row = Row()
        for p, rep in cells:
            row.append_cell(mk_cell(p, rep))
        if rrep > 1:
            row.repeated = rrep
        t.append_row(row)
    want = sum(rep for _, rep in h["cols"])
    if want > t.width:
        t.append_column(Column(repeated=want - t.width if want - t.width > 1 else None))
    return t


def initial_grid(h) -> Grid:
    g = grid_from_rle(h["cols"], h["rows"])
    if h["how"] == "api":
        if g.rows and g.ncols == 0:
            g.ncols = 1
        g.ncols = max(g.ncols, max([len(r) for r in g.rows], default=0), 1 if g.rows else 0)
    return g


# ---------------------------------------------------------------------------------------
# reads compared with the reference grid (C01 observables)
# ---------------------------------------------------------------------------------------


def check_reads(t, g: Grid, rng) -> list:
    """returns [(what, got, expected)] for every read that differs from the plain grid"""
    bad = []
    W, H = g.ncols, len(g.rows)
    vals = g.values()

    def cmp(what, got, exp):
        if not same(got, exp):
            bad.append((what, got, exp))

    cmp("size", tuple(t.size), (W, H))
    cmp("get_values()", t.get_values(), vals)
    for _ in range(3):
        x = rng.randrange(-W, W + 2) if W else rng.randrange(0, 2)
        y = rng.randrange(-H, H + 2) if H else rng.randrange(0, 2)
        xn, yn = norm(x, W), norm(y, H)
        exp = vals[yn][xn] if yn < H and xn < len(g.rows[yn]) else None
        cmp(f"get_value(({x},{y}))", t.get_value((x, y)), exp)
        c = t.get_cell((x, y))
        cmp(f"get_cell(({x},{y})).value", c.get_value(), exp)
    if H:
        y = rng.randrange(H)
        row = t.get_row(y)
        cmp(f"get_row({y}).get_values()", row.get_values(), [c[0] for c in g.rows[y]])
        cmp(f"get_row({y}).width", row.width, len(g.rows[y]))
        cmp(f"get_row_values({y})", t.get_row_values(y), vals[y])
    if W:
        x = rng.randrange(W)
        cmp(f"get_column_values({x})", t.get_column_values(x), [r[x] if x < len(g.rows[i]) else None for i, r in enumerate(vals)])
        cmp(f"get_column_cells({x}) values", [c.get_value() if c is not None else None for c in t.get_column_cells(x)],
            [r[x] if x < len(g.rows[i]) else None for i, r in enumerate(vals)])
    if W and H:
        x = rng.randrange(W); z = rng.randrange(x, W)
        y = rng.randrange(H); tt = rng.randrange(y, H)
        cmp(f"get_values(({x},{y},{z},{tt}))", t.get_values((x, y, z, tt)), [r[x:z + 1] for r in vals[y:tt + 1]])
    cmp("traverse", [[c.get_value() for c in r.traverse()] for r in t.traverse()], [[c[0] for c in r] for r in g.rows])
    return bad


# ---------------------------------------------------------------------------------------
# driver encoding
# ---------------------------------------------------------------------------------------


def enc_cells(line) -> str:
    return "e" if not line else ",".join(f"{pay_id(p)}*{rep}" for p, rep in line)


def enc_cols(cols) -> str:
    return "-" if not cols else ",".join(str(rep) for _, rep in cols)


def enc_rows(rows) -> str:
    return "-" if not rows else "/".join(f"{rrep}:{enc_cells(cells)}" for cells, rrep in rows)


def compress(cells) -> list:
    """expanded payload list -> the run-length line mk_row builds"""
    out = []
    for p in cells:
        if out and same(out[-1][0], p):
            out[-1] = (p, out[-1][1] + 1)
        else:
            out.append((p, 1))
    return out


def op_line(op: dict) -> str | None:
    k = op["op"]
    rep = op.get("rep", 1)
    if k == "set_value":
        return f"tbl op set_cell {op['x']} {op['y']} {pay_id(op['cell'])} 1"
    if k in ("set_cell", "insert_cell"):
        return f"tbl op {k} {op['x']} {op['y']} {pay_id(op['cell'])} {rep}"
    if k == "append_cell":
        return f"tbl op append_cell {op['y']} {pay_id(op['cell'])} {rep}"
    if k == "delete_cell":
        return f"tbl op delete_cell {op['x']} {op['y']}"
    if k in ("set_row", "insert_row"):
        return f"tbl op {k} {op['y']} {enc_cells(compress(op['cells']))} {rep}"
    if k == "append_row":
        return f"tbl op append_row {enc_cells(compress(op['cells']))} {rep}"
    if k == "delete_row":
        return f"tbl op delete_row {op['y']}"
    if k == "insert_column":
        return f"tbl op insert_column {op['x']} {rep}"
    if k == "append_column":
        return f"tbl op append_column {rep}"
    if k == "delete_column":
        return f"tbl op delete_column {op['x']}"
    if k in ("set_values", "set_cells"):
        m = "/".join(enc_cells(line) for line in op["matrix"])
        return f"tbl op {k} {op['x']} {op['y']} {m}"
    if k in ("set_row_values", "set_row_cells"):
        return f"tbl op {k} {op['y']} {enc_cells(op['line'])}"
    if k == "set_column_values":
        return f"tbl op set_column_values {op['x']} " + ("e" if not op["cells"] else ",".join(str(pay_id(c)) for c in op["cells"]))
    return None


def state_of_xml(xml: str):
    """(width?, colspec, rowspec, problems, grid) from the independent lxml reading"""
    g, cols, rows, problems = lxml_grid(xml)
    return enc_cols(cols), enc_rows(rows), problems, g


def parse_state(ans: str):
    """driver `ok W H cols=.. rows=.. cmap=.. tmap=..` -> dict"""
    parts = ans.split(" ")
    d = {"w": int(parts[1]), "h": int(parts[2])}
    for p in parts[3:]:
        k, _, v = p.partition("=")
        if v:
            d[k] = v
    return d


def grid_of_spec(colspec: str, rowspec: str) -> Grid:
    cols = [] if colspec == "-" else [(None, int(r)) for r in colspec.split(",")]
    rows = []
    if rowspec != "-":
        for r in rowspec.split("/"):
            rrep, _, cs = r.partition(":")
            cells = [] if cs == "e" else [(id_pay(int(c.split("*")[0])), int(c.split("*")[1])) for c in cs.split(",")]
            rows.append((cells, int(rrep)))
    return grid_from_rle(cols, rows)


# ---------------------------------------------------------------------------------------
# Row-level histories (the public Row API on a Row object, standalone or living in a table)
# ---------------------------------------------------------------------------------------

ROW_OPS = ["set_cell", "set_value", "insert_cell", "append_cell", "delete_cell", "set_values", "set_cells"]
ROW_READS = ["get_value", "get_cell", "get_values", "traverse", "cells", "get_cells"]


def gen_row_history(rng, max_ops=7):
    line = gen_line(rng, 4)
    ref = expand_line(line)
    ops = []
    for _ in range(rng.randint(1, max_ops)):
        if rng.random() < 0.6:
            ops.append({"op": "read", "read": rng.choice(ROW_READS), "x": rng.randrange(len(ref) + 2)})
        k = rng.choice(ROW_OPS)
        x = pick_index(rng, len(ref))
        rep = rng.choice(REPS)
        if k in ("set_cell", "insert_cell"):
            op = {"op": k, "x": x, "cell": gen_payload(rng), "rep": rep}
        elif k == "set_value":
            op = {"op": k, "x": x, "cell": (gen_payload(rng)[0], None)}
        elif k == "append_cell":
            op = {"op": k, "cell": gen_payload(rng), "rep": rep}
        elif k == "delete_cell":
            op = {"op": k, "x": x}
        elif k == "set_values":
            n = rng.choice([0, 1, 2, len(ref), len(ref) + 1, 3])
            op = {"op": k, "x": rng.choice([0, 0, x]), "cells": [(gen_payload(rng)[0], None) for _ in range(n)]}
        else:
            op = {"op": k, "x": rng.choice([0, x]), "line": gen_line(rng, 3)}
        ops.append(op)
        row_ref_apply(ref, op)
    return {"line": line, "ops": ops, "in_table": rng.random() < 0.4}


def row_ref_apply(ref: list, op: dict) -> None:
    k = op["op"]
    n = len(ref)
    if k in ("set_cell", "set_value"):
        x = norm(op["x"], n)
        rep = op.get("rep", 1)
        Grid.pad_row(ref, x)
        ref[x:x + rep] = [op["cell"]] * rep
    elif k == "insert_cell":
        x = norm(op["x"], n)
        Grid.pad_row(ref, x)
        ref[x:x] = [op["cell"]] * op.get("rep", 1)
    elif k == "append_cell":
        ref.extend([op["cell"]] * op.get("rep", 1))
    elif k == "delete_cell":
        x = norm(op["x"], n)
        if x < len(ref):
            del ref[x]
    elif k == "set_values":
        x = norm(op["x"], n)
        for c in op["cells"]:
            Grid.pad_row(ref, x)
            ref[x:x + 1] = [c]
            x += 1
    elif k == "set_cells":
        x = norm(op["x"], n)
        for c, rep in op["line"]:
            Grid.pad_row(ref, x)
            ref[x:x + rep] = [c] * rep
            x += rep


def row_impl_apply(row, op: dict) -> None:
    k = op["op"]
    if k == "read":
        r, x = op["read"], op["x"]
        if r == "get_value":
            row.get_value(x)
        elif r == "get_cell":
            row.get_cell(x)
        elif r == "get_values":
            row.get_values()
        elif r == "traverse":
            list(row.traverse())
        elif r == "cells":
            row.cells  # noqa: B018
        else:
            row.get_cells()
    elif k == "set_cell":
        row.set_cell(op["x"], mk_cell(op["cell"], op.get("rep", 1)))
    elif k == "set_value":
        row.set_value(op["x"], op["cell"][0])
    elif k == "insert_cell":
        row.insert_cell(op["x"], mk_cell(op["cell"], op.get("rep", 1)))
    elif k == "append_cell":
        row.append_cell(mk_cell(op["cell"], op.get("rep", 1)))
    elif k == "delete_cell":
        row.delete_cell(op["x"])
    elif k == "set_values":
        row.set_values([c[0] for c in op["cells"]], start=op["x"])
    elif k == "set_cells":
        row.set_cells([mk_cell(c, rep) for c, rep in op["line"]], start=op["x"])


def row_op_line(op: dict) -> str:
    k = op["op"]
    rep = op.get("rep", 1)
    if k in ("set_cell", "insert_cell"):
        return f"row op {k} {op['x']} {pay_id(op['cell'])} {rep}"
    if k == "set_value":
        return f"row op set_cell {op['x']} {pay_id(op['cell'])} 1"
    if k == "append_cell":
        return f"row op append_cell {pay_id(op['cell'])} {rep}"
    if k == "delete_cell":
        return f"row op delete_cell {op['x']}"
    if k == "set_values":
        return f"row op set_values {op['x']} " + ("e" if not op["cells"] else ",".join(str(pay_id(c)) for c in op["cells"]))
    return f"row op set_cells {op['x']} {enc_cells(op['line'])}"


def row_reads(row, ref, rng) -> list:
    bad = []

    def cmp(what, got, exp):
        if not same(got, exp):
            bad.append((what, got, exp))

    vals = [c[0] for c in ref]
    cmp("Row.get_values()", row.get_values(), vals)
    cmp("Row.width", row.width, len(ref))
    cmp("Row.traverse", [(c.get_value(), c.style) for c in row.traverse()], [tuple(c) for c in ref])
    cmp("Row.cells x", [c.x for c in row.cells], list(range(len(ref))))
    for _ in range(3):
        x = rng.randrange(-len(ref), len(ref) + 2) if ref else rng.randrange(2)
        xn = norm(x, len(ref))
        exp = vals[xn] if xn < len(ref) else None
        cmp(f"Row.get_value({x})", row.get_value(x), exp)
        cmp(f"Row.get_cell({x}).value", row.get_cell(x).get_value(), exp)
    if ref:
        x = rng.randrange(len(ref)); z = rng.randrange(x, len(ref))
        cmp(f"Row.get_values(({x},{z}))", row.get_values((x, z)), vals[x:z + 1])
    return bad
