"""regenerate /verif/MANIFEST.json from the table below (keeps it schema-valid at all times)"""
import json
import sys
from pathlib import Path

VERIF = Path(__file__).resolve().parent.parent
BASELINE = json.loads(Path("/root/.vp/BASELINE.json").read_text())["cmd"] if Path("/root/.vp/BASELINE.json").exists() else "cd /repo && /venv/bin/python -m pytest -q -p no:cacheprovider"

NOTE_COMMON = (
    "Trusted: Lean 4.33 kernel with axioms propext, Classical.choice, Quot.sound only (audited by #print axioms at every run; "
    "no native_decide/bv_decide/sorry/own axioms); the hand-written Lean model is modelled-not-verified and tied to /repo/src by the "
    "correspondence run of the same check (same inputs to odfdo and to the Lean driver, canonicalised outputs diffed); "
    "the Python harness and its lxml-only oracles; lxml and the CPython stdlib are parameters. "
)

CHECKS = {
    "C19": dict(
        text="Unbounded Lean theorems: column letters<->numbers bijection (both directions, all n / all words), written cell and area "
        "addresses parse back to the same numbers, increment counts from the end, string form == tuple form in translate_from_any, and the "
        "named-range address writer/reader round trip for every table name. Correspondence: coordinates.py and NamedRange vs the model on "
        "~40k inputs incl. a malformed stream; model-free oracle on every coordinate-taking Table/Row method (str vs tuple vs negative form, range bounds).",
        note="Proved for the model of coordinates.py and of the NamedRange address code; the table-level clauses (every method, both forms, "
        "range bounds, rename updates ranges) are decided by the differential oracle on generated tables, not by a theorem.",
        technique="Lean 4 theorems (induction, base-26/base-10 arithmetic, list scanning) + differential correspondence model/impl",
        design="5/C19",
    ),
}

CHECKS["C18"] = dict(
    text="Unbounded Lean theorems on the codec model: duration encode/decode round trip for every duration of either sign down to the microsecond and its "
    "xsd:duration shape; boolean; every 24-bit colour and (by decide over the table regenerated from const.py at every run) every CSS name; date and "
    "datetime round trips for years 1..9999, every microsecond, every +-HH:MM offset including the '+00:00' -> 'Z' rewriting. Correspondence: "
    "datatype.py / color.py vs the model on boundary lattices, random interiors and a malformed near-miss stream; oracle with independent xsd regexes.",
    note="date.isoformat / datetime.fromisoformat are CPython: modelled for the forms isoformat produces (parameters, validated by the correspondence). "
    "Duration.encode uses integer divmod since fix 5831ab8 (the model's arithmetic exactly). "
    "Unit (lengths) is not modelled. Known finding C18-F2 (Date.decode returns a datetime) is reported, not suppressed silently.",
    technique="Lean 4 theorems (parser/printer round trips by list-scanning lemmas, omega, decide +kernel over a generated table) + differential correspondence",
    design="5/C18",
)

CHECKS["C05"] = dict(
    text="Unbounded Lean theorems: for EVERY string and EVERY way of cutting it into successive appends (and for any pre-existing paragraph "
    "content) inner_text is exactly the concatenation (text_append, text_appends), and - for strings without U+000D and paragraphs without inline "
    "children - an ODF 1.2 6.1.2 consumer reads exactly that string from the produced XML (nf_append, nf_appends): no space run, leading/trailing "
    "space, tab or line break lost or doubled. Correspondence: Paragraph/Span/Header vs the model on all strings over {a,space,tab,newline} up to "
    "length 6 (8 thorough), all 2-/3-way splits, random rich-alphabet strings, appends interleaved with Span children: node list, text and consumer "
    "reading compared; model-free oracle = independent lxml text projection and an independent consumer.",
    note="The consumer semantics (DESIGN.md C05 Reading: text:s/tab/line-break are not collapsible and reset the state) is my reading of 6.1.2, written once "
    "in Lean and once independently in Python. parse(serialise(x)) = x is lxml's (parameter; the re-parsed text is compared at every case). Inline children "
    "(spans) are opaque in the model: for them only the text theorem applies, the normal-form clause is checked by the oracle on the real XML.",
    technique="Lean 4 theorems by induction over an atom abstraction of the node list (tightness invariant), + differential correspondence, exhaustive small scope",
    design="5/C05",
)

TABLE_NOTE = (
    "Model: OdfModel/Rle.lean (element_cached.py incl. the position-map arithmetic) + OdfModel/Table.lean (table.py / row.py), spec OdfModel/Grid.lean. "
    "The OBJECT layer is OdfModel/TableObj.lean (C02): the table's cache of Row wrappers (_indexes['_tmap']), each wrapper's own _rmap and its cache of Cell "
    "wrappers; there a cached wrapper is identified with the element at its key (every operation that moves row elements empties the cache in the same step, "
    "as the code does), an identification checked on the live objects after every step by the correspondence of C02. NOT in the model: the cache of Column "
    "wrappers, wrappers kept by the caller across later edits (C08 / C10), row/column styles, spans, and the order of "
    "column and row elements among the table's children - these are decided by the correspondence / lxml oracles of the check at every step. The history "
    "theorems exclude one state: rows without any declared column (only reachable by deleting the last column of a table that has rows), where the property "
    "does not say what a later operation should declare; histories are cut there on both sides. The proved alphabet holds 15 operations incl. the bulk setters set_cells and "
    "set_values (with the fast path of Row.set_values) and the whole-table transformations rstrip(aggressive) and transpose(); set_row_values / set_row_cells are instances of set_row; set_column_values has its own one-step "
    "refinement theorem (it is defined only for a list as long as the table is high, so it is not a member of the history alphabet). "
)
CHECKS["C01"] = dict(
    text="Refinement proof: for every coherent run-length state, every operation of the alphabet (set/insert/append/delete of cells, rows, columns, with "
    "repeats on arguments and targets, the matrix setters set_cells / set_values, rstrip and transpose), every integer coordinate and every repeat >= 1, the model step succeeds and denotes exactly the list-of-lists "
    "operation (step_refines); by induction every finite history does (history_refines, history_reads); the three vault edits incl. overlap trimming are "
    "proved at the run-length level; history_through_caches_is_the_grid composes this with the object layer of C02: a history of the 15 mutators interleaved with "
    "cache-filling reads, run through the wrapper caches, answers at every step what the plain grid answers. Correspondence: ~7000 steps per quick run of random histories (Table API and Row API) over random encodings, model vs "
    "implementation (lxml reading) vs Lean spec grid vs Python reference grid, all reads compared after every step.",
    note=TABLE_NOTE,
    technique="Lean 4 refinement proof (abstraction function, per-op simulation, induction over histories) + differential correspondence on histories",
    design="5/C01",
)
CHECKS["C02"] = dict(
    text="Proved: every vault edit keeps the stored position map equal to the one a fresh parse computes, find_odf_idx on a coherent map returns the run that "
    "covers the position, hence after every history the live table IS the fresh parse of its own XML (reparse_id, history_fresh) and sizes are the sums of "
    "repeats. OBJECT LAYER (the caches the property is anchored in): in OdfModel/TableObj.lean a read is served from whatever an earlier read cached "
    "(_indexes['_tmap'], the wrapper's own _rmap, its cached cells), an edit of an unrepeated row goes through the cached wrapper in place, caches are emptied "
    "exactly where the code empties them; proved: every one of the 15 operations made through coherent caches does to the XML what it does without caches "
    "(cached_step_refines) and leaves every cached wrapper describing the element at its key (cached_step_keeps_caches); get_value / get_row_values served from "
    "the caches answer what the fresh parse answers (cached_get_value_fresh, cached_row_values_fresh); hence for EVERY history of mutations interleaved with "
    "cache-filling reads every answer and the XML are those of the fresh parse at every step (cached_history_fresh). Counter-example theorem for known finding "
    "C02-F3 (repeated setter of a live row). Correspondence: ~10 000 steps per quick run where the live _indexes['_tmap'] (keys, each wrapper's _rmap, its "
    "cached cells, identity of the elements held) is compared with the model after every step; live vs Element.from_tag(serialize()) vs independent lxml "
    "expansion after every step of the C01 histories and of a wide alphabet (rstrip, optimize_width, transpose, spans, extend_rows, set_column_cells, live-row "
    "edits, office-style merged cells), plus save+reload.",
    note=TABLE_NOTE + "Known finding C02-F3 is reported at every run. If the private attributes read by the cache walk are renamed, the walk reports 'caches not "
    "observable' and only answers are compared.",
    technique="Lean 4 refinement + invariant proof (object layer with wrapper caches refines the XML-level model; position maps; induction over histories with reads) + differential check of the live caches and live / fresh parse / independent reader after every step",
    design="5/C02",
)
CHECKS["C07"] = dict(
    text="Proved: along every history every stored repeat stays >= 1 (so the attribute written is absent or >= 2 and reads back as the count), no row gets wider "
    "than the declared columns, the first row declares the columns, reported size = sums of repeats (history_structure, fit_preserved, first_row_declares); "
    "the table-name check generated from the source regex accepts exactly the office rule, the named-range check exactly letters/digits/underscore minus the "
    "A1 form (table_name_rule, range_name_rule, for all strings). Correspondence at run-length level + an lxml walk of every listed rule after every step.",
    note=TABLE_NOTE + "Name rules: `strip()` is modelled on the four ASCII blanks; the named-range theorem is over the printable ASCII alphabet of the API check.",
    technique="Lean 4 invariant proofs + decide over tables regenerated from the source (regex alternatives, forbidden set) + structural lxml oracle",
    design="5/C07",
)

CHECKS["C08"] = dict(
    text="Proved on the model of Row.traverse (both branches) and Table._yield_odf_rows: the k-th yielded cell is addressed x = k and is the k-th cell of "
    "the expanded row, rows come once per repetition, and NO yielded cell keeps a repeat count wherever a range starts (incl. the last position of a "
    "repeated run); Table.traverse(start, end) - behind get_rows / get_values / iter_values / get_cells with coordinates - yields exactly the rows of the expanded table "
    "inside the bounds, each addressed by its y, in increasing order, without repeat count, also when the range begins strictly inside a repeated run "
    "(table_traverse_range_sound, table_traverse_range_complete; 4 ranges per table go to the driver); get_value addresses the asked cell for every integer coordinate and answers the empty cell outside the populated area. "
    "Detachment: proved on the ownership heap (OdfModel/Heap: the table is owner 0, every returned object an owner of its own born with fresh objects) - "
    "no history of modifications of returned objects changes an object of the table or of another returned object, a read followed by such modifications "
    "leaves the table as the read alone leaves it, the table changes only by steps applied to the table (returned_copies_detached, returned_copies_independent, "
    "read_then_modify, table_changes_only_by_table_steps). Tie to the code: the live Python objects (wrapper dicts, cache lists, lxml trees) reachable from the "
    "table and from the returned objects are walked after the read and after each modification and replayed on the model, which has no object with two owners and "
    "refuses a step on another owner's object; besides, for every getter of the property, 4-8 mutations of every returned object with the table XML compared "
    "byte for byte, its answers and the other returned objects compared too.",
    note=TABLE_NOTE + "The heap theorems are about traces of alloc / write steps: that the implementation's objects form such a trace is what the walk checks, on the "
    "objects it reaches (instance dicts, dicts / lists / sets, one cell per lxml tree); it is not proved from the source. Single-item reads "
    "(get_cell, get_row, get_column, and the per-row cells of get_column_cells) may keep their repeat count; only expanding reads must drop it.",
    technique="Lean 4 theorems on the traverse loops and on the ownership heap + differential correspondence (line protocol, heap walk of live objects) + mutation-of-returned-object oracle",
    design="5/C08",
)

CHECKS["C17"] = dict(
    text="Proved on the grid specs: transposing twice is the identity on the matrix (rows completed to the common width) for every non-empty table; "
    "rstrip is idempotent, keeps every non-empty value at its coordinates and removes only trailing all-empty rows / trailing empty cells; a span leaves "
    "values untouched and changes nothing outside the area, refuses to overlap an existing span, and set_span followed by del_span restores the table for "
    "every area inside it. Proved on the code-level model: Table.rstrip on run-length XML (trailing empty row ELEMENTS deleted, trailing empty cell ELEMENTS "
    "of every row deleted, declared columns trimmed from the end) denotes the grid spec on EVERY coherent run-length state and leaves a coherent state "
    "(rstrip_refines), so idempotence and value preservation hold of the run-length model too (rstrip_table_idempotent, rstrip_table_keeps). "
    "optimize_width has a run-length model (tblOptimize) whose result is proved coherent with no row wider than the declared columns "
    "(optimize_width_coherent_and_fits) and keeps every value at its coordinates (optimize_width_keeps_values) and is idempotent on the run-length state (optimize_width_idempotent). Correspondence: Table.rstrip / transpose / optimize_width / set_span / del_span vs the Lean models (run structure, grid, "
    "span attributes). Oracle only: the 'only trailing' clause for optimize_width, compositions, merged cells as office applications store them (covered cells in repeated runs) under rstrip / optimize_width, CSV round trip.",
    note=TABLE_NOTE + "transpose is modelled at the grid level (the code works on the expanded cells). Matrices are "
    "compared modulo trailing empty rows/columns for transpose (a column declared beyond the widest row holds no content). CSV: known finding C17-F3 "
    "(value classes CSV cannot carry; csv.Sniffer) is reported at every run.",
    technique="Lean 4 algebraic laws on the spec (idempotence, involution, inverse) + refinement proof of the run-length rstrip to the spec + differential correspondence + oracles",
    design="5/C17",
)

CHECKS["C20"] = dict(
    text="Proved for every sequence of heading levels >= 1 and every outline level: the dict-based numbering of TOC._header_numbering refines the outline "
    "counters (keys stay exactly 1..L, all deeper counters dropped), so the entries of a fill are exactly the headings with level <= outline, in order, each "
    "with its hierarchical number (fill_is_outline, entries_are_filtered_headings); the copy in scripts/headers.py is the same function. Correspondence and "
    "oracle: real documents (skipped levels, white-space / span heading texts, TOC anywhere, outline 0..10), XML of text:index-body vs an independent "
    "numbering, title kept, refill idempotent (same and fresh wrapper), refill after heading edits, odfdo-headers output.",
    note="Entry text = number + ' ' + heading text goes through the paragraph encoder whose exactness is C05. Level 0 / missing outline-level headings are "
    "outside the statement (levels 1..10). lxml and the document plumbing (body.headers, get_toc) are exercised by the oracle only.",
    technique="Lean 4 refinement proof of the counter dict to a list spec (induction over the heading sequence) + differential correspondence",
    design="5/C20",
)

CHECKS["C14"] = dict(
    text="Proved for EVERY identifier (any characters, any mix of quotes, any length): the XPath expression built by xpath_literal is well formed and "
    "evaluates to exactly that identifier (literal_total), hence two different identifiers never match each other's predicate (literal_injective); and the "
    "lookup itself (selectByName: the predicate evaluated on the identifiers the document holds, first match) never ends in a query error, returns only an object "
    "carrying exactly the identifier asked for, finds every stored identifier among any others, and finds nothing under a name nothing was stored under "
    "(lookup_never_errors, lookup_returns_only_the_named, lookup_finds_the_stored, lookup_absent). "
    "Correspondence: utils.xpath_literal vs the Lean function, lxml's evaluation of the expression vs the Lean evaluator, and which of the two stored objects each "
    "lookup of each entry point returns vs selectByName (~8000 lookups per quick run). Oracle: 17 lookup entry points "
    "(tables, styles, bookmarks, reference marks point/range, frames, draw pages, variables, user fields, notes, annotations, links, manifest paths, "
    "user-defined metadata), two close identifiers each, in memory and after save + reload.",
    note="The XPath evaluation of Literal / concat(...) is libxml2's: modelled, validated against lxml on every identifier of the run. get_section takes no "
    "name (not covered). Lookups are made under the identifier the object reports after its setter ran (table names are stripped). Known finding C14-F3 "
    "(names 'true'/'false' read back as booleans) is reported at every run.",
    technique="Lean 4 theorem (parser/printer round trip for every string) + differential correspondence with lxml + entry-point oracle",
    design="5/C14",
)

CHECKS["C06"] = dict(
    level="proof",
    text="PARTIAL proof. Proved (decide over chains REGENERATED from the AST of set_value_and_type, Meta.set_user_defined_metadata and the Cell.value setter at every run): "
    "every Python type enters the branch that writes its own ODF value type, datetime before date and bool before int; an int of any size and sign is written and read back without loss (int_lexical); the codecs the branches call are exact "
    "inverses for every value (C18 theorems: every duration to the microsecond, every valid datetime with offset, booleans). Oracle + correspondence: a value "
    "lattice per type (None, bool, int to 10^30, float, Decimal, str incl. 'true'/'1.5'/dates-looking, date, datetime with microseconds and offsets, timedelta "
    "of either sign with microseconds) x 9 carriers (Cell ctor / value= / set_value, Table.set_value, Row.set_value, VarSet, UserFieldDecl, UserDefined, "
    "user-defined metadata) x {direct read, second reader, re-parsed element, save + reopen}, plus two-write histories (a carrier that already holds a value of "
    "another type), lexical form of every attribute written, no stale value attribute.",
    note="PARTIAL: the dispatch and the date/time/boolean codecs are proved; number formatting (str(float), Decimal(str), int(Decimal)) is CPython's and is "
    "exercised by the oracle only; the attribute plumbing of each carrier and save/reopen are decided by the oracle on the generated lattice, not by a theorem. "
    "A date is accepted back as the datetime at 00:00 of that day (documented behaviour, known finding C18-F2).",
    technique="Lean 4 theorems over a model regenerated from the source AST (translator) + C18 codec round-trip theorems + value-lattice round-trip oracle",
    design="5/C06",
)

CHECKS["C09"] = dict(
    text="Proved for EVERY paragraph token stream (any nesting, any number of text nodes, white-space elements, notes, earlier marks), every offset / length / "
    "position and EVERY matcher (the regex engine is a parameter: any family of spans with start <= end): set_span / set_link by offset and by regex leave the "
    "readable text and the notes' text unchanged; the wrapped element contains exactly the match (span content through C05's encoder theorem); the offset form "
    "rewrites exactly the node slice designated and nothing beyond range; the regex form yields the finditer layout of the original text although the code "
    "rewrites the node from the last match to the first; _insert by position / before= / after= / content= / (from, to) puts the element(s) at the designated "
    "place of one text node and changes no text; the search picks the position-th (or last) match in document order; a failed insertion changes nothing "
    "(roll-back theorem); any history of mixed insertions preserves the text (induction); delete and strip keep every character outside the removed tags. "
    "Correspondence: the same token stream and operation go to odfdo and to the Lean model (python's re supplies the spans), ~8k operations per quick run "
    "over generated layouts, histories of up to 3 insertions, then every removal; oracle: independent projections over lxml. "
    "Moving the end tag of a range (set_reference_mark_end / insert_annotation_end, model Markup.moveEnd: the new tag is inserted first, then the former one is "
    "deleted): an address that matches nothing fails without modification (move_end_raises_without_modification, the order fix C09-F6 established), and every "
    "character is kept for every insertion that keeps every character (move_end_keeps_every_character, insert_by_position_keeps_every_character, insert_by_regex_keeps_every_character for every matcher); ~450 such moves "
    "per quick run are sent to the model.",
    note="The regular expression engine (`re`) is a parameter of the model, instantiated by the harness. strip_tags re-appends text through _add_text which "
    "collapses runs of blanks: the model keeps the characters and the correspondence for the strip operations compares modulo runs of blanks (the oracle "
    "requires the ODF reading of the paragraph to be unchanged). Known finding C09-F1 (offsets count XML text-node characters, not readable characters) is "
    "reported at every run; deletion of a reference-mark-start / annotation also deletes its end tag (documented) and is outside the correspondence.",
    technique="Lean 4 theorems (structural induction over token streams, matcher as a parameter, induction over histories) + differential correspondence + lxml oracle",
    design="5/C09",
)

CHECKS["C16"] = dict(
    text="Proved for EVERY token stream and EVERY matcher (spans as finditer yields them): the count is the number of matches in document order; a replacement "
    "keeps every token in place and changes only characters of text nodes (replace_keeps_markup); a text node is the weave of its gaps and matches and the "
    "new node is the weave of the same gaps with the replacement (replace_changes_matches_only), and with the expansion of the template AT EACH MATCH when the "
    "replacement is a template of re.sub made of literal pieces and references to the whole match (replace_template_changes_matches_only, replace_template_keeps_markup, "
    "replace_by_whole_match_is_identity, template_literal_is_literal); no match, no change; text_at of a search span is the matched "
    "text and clamps out-of-range arguments; formatted=True keeps the characters and yields the ODF normal form (instances of C05's theorems). "
    "Correspondence: count / replace / text_at on generated layouts x 26 patterns x targets {paragraph, inner span / link with a tail}; oracle: per-node re.sub "
    "over lxml, start tags before/after, own-text projection for search / search_first / search_all / match / text_at, characters and white-space encoding "
    "after formatted replace, text outside the target untouched.",
    note="`re` is a parameter of the model (the harness supplies finditer spans per node); the replacement is a literal string or a template of literal pieces and references to the whole match, as "
    "CPython's re._parser.parse_template cuts it (the harness hands the pieces to the model; references to inner groups stay with the oracle). The "
    "formatted=True path is modelled by C05's append_plain_text model per rebuilt container: every rebuilt container holding only text and white-space elements "
    "is driven through the model (`ws rebuild`: children after the substitution -> children after append_plain_text('')) and must come out as the implementation "
    "wrote it; the oracle adds characters, no raw blank runs / tabs / newlines, no raw blank at an edge, ODF normal form and equality with a fresh container; "
    "text directly inside a link is not formatted by design.",
    technique="Lean 4 theorems (weave decomposition, matcher as a parameter, reuse of C05 theorems) + differential correspondence + lxml/re oracle",
    design="5/C16",
)

CHECKS["C11"] = dict(
    text="Proved for EVERY XML tree (any depth, tags, character data), with TEXT_CONTENT regenerated from container.py at each run: pretty_indent keeps every "
    "element, attribute and the structure (only character data changes); under the decidable nesting hypothesis WF (no paragraph directly inside textual "
    "content; evaluated on every tree met) what an ODF 1.2 consumer reads in EVERY paragraph and heading at any depth is unchanged (through the C05 consumer); "
    "the regenerated set still holds the mixed-content elements and none of the element-only ones. Save protocol (abstract parts): save never changes a "
    "parsed part, saving twice and pretty-then-plain write the same content. The pretty branch of Document.save on the package model (Package.savePretty, the "
    "pretty serialiser a parameter): name for name it writes what the plain save writes, through the serialiser when the part is parsed or one of the four "
    "standard parts and byte for byte otherwise - no part lost or invented, an optional part the package lacks stays absent (pretty_save_writes, "
    "pretty_save_same_parts, pretty_save_layout_only, pretty_save_other_parts_untouched, pretty_save_with_identity); tied to the code by the final pretty saves "
    "of the C04 histories (driver op savep: each entry must be the named part exactly, or the named part up to layout). Correspondence: pretty_indent of the implementation vs the model on every part "
    "of every sample / template / generated document. Oracle (lxml): per paragraph reading, start tags + attributes, in-memory serialisation before / after, "
    "for pretty x {zip, folder, xml} and save sequences (canonical XML compared).",
    note="The Lean reading treats an element as transparent iff it is in TEXT_CONTENT (so the theorem is relative to that set: text_content_core pins its "
    "core; the oracle's reading is independent of it). office:binary-data (textwrap of base64) is outside the model and trees holding it or comments are "
    "skipped by the correspondence. The first save-protocol theorems are about an abstract model (bytes = the tree they parse to) tied to the code by the "
    "save-sequence oracle only; the savePretty theorems are about the package model, whose pretty serialiser is a parameter (that XmlPart.pretty_serialize is "
    "pretty_indent + serialisation is read from the source, not proved); flat XML export is covered by the oracle only (content paragraphs).",
    technique="Lean 4 theorems (structural induction over a first-child/next-sibling forest, consumer state lemma) over a model partly regenerated from the source + differential correspondence + lxml oracle",
    design="5/C11",
)

PKG_NOTE = (
    "Package model (OdfModel/Package.lean): names and bytes are abstracted to identifiers (two parts are equal iff their canonical bytes are), parsing and "
    "serialising are the identity on these values, the manifest is the list of its entries; zip / folder I/O, lxml and the generator stamp are parameters. "
    "The model follows every history of the run through `pk` requests and must write the same package as odfdo (names, values, manifest entries). "
)

CHECKS["C04"] = dict(
    text="Proved for EVERY history over {add_file / image frame / copied picture, del_part, any edit of content-styles-meta-settings, clone, save + reopen} from a "
    "coherent source, whatever was read lazily and in whatever order: the invariant (no name twice in the parts, no path twice in the manifest, a file name is "
    "held iff the manifest lists it) is kept by each operation (step_inv) hence by every history (history_inv); the package save writes has no duplicate name, "
    "its manifest no duplicate path, and lists exactly its files (saved_package_matches_manifest); mimetype is the first entry (mimetype_first). "
    "Correspondence: the Lean model follows ~800 histories per quick run and writes the same entries. Oracle (zipfile + lxml): entry order, compression, "
    "duplicates, manifest entries vs files, root media type, on every save of every history, from the 4 templates and the samples opened by path / buffer / folder.",
    note=PKG_NOTE + "Hypothesis of the theorems: manifest.rdf is not declared with an EMPTY media type (then _check_manifest_rdf drops the part and keeps the "
    "entry: not reachable through add_file / del_part). Sources whose own manifest is incoherent are skipped (counted). The root entry / mimetype equality and "
    "the zip compression flags are decided by the oracle only.",
    technique="Lean 4 theorems (state invariant by induction over histories, association-list refinement) + differential correspondence + zipfile/lxml oracle",
    design="5/C04",
)

CHECKS["C03"] = dict(
    text="Proved for EVERY history of reads, edits, set_part, add_file, del_part, clones and save / reopen cycles, on documents opened by path (lazy parts) or "
    "from a buffer: reads never change the document whatever they cache; save writes under every name exactly what the (prepared) document holds — the parsed "
    "form of parsed XML parts, the bytes of the others — no name twice (save_writes_the_document); when manifest.rdf matches its declaration the package is the "
    "in-memory document, nothing lost, nothing invented, and reopening gives it back (reopen_is_the_document); an unmodified open / save cycle is the identity "
    "(open_save_identity); an API edit and the bytes given to set_part are what is saved (also when the part was parsed before). Correspondence: the model "
    "follows every history. Oracle: names and bytes (XML as canonical XML) of every saved zip / folder against the in-memory document at the time of saving, "
    "pretty-printed folders up to layout, flat XML export well formed and holding the body text, up to 3 save / reopen cycles.",
    note=PKG_NOTE + "Pretty-printed saves are compared up to layout (C11's reading); flat XML export cannot be reopened and is checked for well-formedness and body "
    "text only.",
    technique="Lean 4 theorems (view refinement of the lazy container + parsed-part cache, every history) + differential correspondence + zipfile/lxml oracle",
    design="5/C03",
)

CHECKS["C10"] = dict(
    text="Proof with a checked aliasing tie. Proved (package layer): a document clone holds under every name what the original holds, whatever had been cached, "
    "edited, replaced or deleted before (clone_equal_at_birth), nothing is left on disk only, saving the clone writes what saving the original writes, a clone of "
    "a clone too. Proved (ownership heap, OdfModel/Heap): the mutable objects behind the twins are cells each owned by one twin and an operation on a twin "
    "allocates / writes cells of that twin only; then for EVERY history on any number of twins and EVERY interleaving, what a twin can observe depends on its own "
    "sub-history only (untouched_twin_unchanged, own_history_only, interleaving_irrelevant), a birth leaves the others as they were, and the model has no step "
    "reaching an object of another twin. Tie, checked at every run: the live Python objects reachable from the original and from each clone (attribute dicts, "
    "cache lists and dicts, lxml trees, dicts of parts) are walked after every operation and every read; the allocations and changes seen are replayed on the "
    "model; an object reachable from two twins, or changed by an operation applied to the other twin, is not a step of the model and is reported. Decided by the "
    "harness oracle besides: tables after C01 histories (clone, clone of clone), rows, cells, XML parts, documents after C03 histories; cloning leaves the original "
    "unchanged; equal at birth; 2..6 operations interleaved on original and clone with the untouched twin observed after each one; absolute XPath queries from a "
    "copy see its own tree only; both twins agree with their own reference (plain grid / ledger) at the end; the package model follows the document histories in two slots.",
    note=PKG_NOTE + "Equality at birth of element / row / cell / table clones is decided by the oracle (their models are the table models of C01, where a clone is a "
    "copy of a value). The heap model abstracts contents to fingerprints: it carries ownership and framing, not what an operation computes. The walk follows instance "
    "dictionaries of odfdo objects, dict / list / set / tuple members and lxml trees to depth 12; objects of other kinds (open files, compiled patterns) are not followed.",
    technique="Lean 4 theorems (clone = same view; ownership heap: every history, every interleaving) + heap-trace refinement check on the live objects + interleaving oracle on twins + differential correspondence",
    design="5/C10",
)

CHECKS["C13"] = dict(
    text="Proved for EVERY container and style: delete-existing-then-append keeps a container free of homonyms with the new style there exactly once and "
    "every other style in place, in order (insert_keeps_unique); the container's lookup finds exactly the inserted style (found_in_container); an accepted "
    "insertion changes exactly one container (insert_touches_one_container), the one required by family and kind (place_table, decide over the generated family "
    "list); for every family and kind accepted, that container is one the lookup searches (placed_container_is_searched, decide over CONTEXT_MAPPING "
    "REGENERATED from styles.py at each run); the document lookup finds the inserted style when no earlier-searched container holds a homonym "
    "(found_in_document_partial); generated automatic names are fresh among the automatic styles of the family (automatic_name_is_fresh); a merged style "
    "replaces its homonym in its container and is found there (merge_one_lands). Correspondence: ~2500 insert / get / merge requests per quick run, model "
    "state = implementation state read by XPath. Oracle: container, uniqueness, name returned, others untouched, lookup (also after save + reload), bursts of "
    "unnamed automatic styles, merge union + source unchanged, add_page_break_style, set_table_displayed, delete_styles.",
    note="PARTIAL for the document-wide lookup: a style inserted while a homonym exists in a container searched earlier is not the one get_style returns "
    "(known finding C13-F2, reported at every run; theorem found_in_document_partial states the hypothesis). Styles are abstracted to (kind, family, name, body "
    "id); draw:gradient / hatch / ... are not styles for the style API and are ignored.",
    technique="Lean 4 theorems (list lemmas on delete-then-append, decide over tables regenerated from the source) + differential correspondence + XPath oracle",
    design="5/C13",
)

CHECKS["C12"] = dict(
    text="PARTIAL proof. Proved: the generic PropDef getter / setter (every attribute property of every class): what is written is what is read back for every "
    "value, None deletes, booleans use the ODF lexical form, with the single exception that the strings 'true' / 'false' read back as booleans "
    "(propdef_roundtrip, propdef_identity); over the table DUMPED from the live registry at every run (110 tags / 89 classes): the registry is a function, "
    "every tag dispatches to its class, every class is what its own tag dispatches to, an unknown tag falls back to Element, the unregistered exported "
    "subclasses are exactly the known three; over the table regenerated from the constructors' AST: no constructor argument that has a same-named attribute "
    "property is dropped or stored under another name (ctor_params_stored; it found BackgroundImage(repeat/opacity/filter), fix C12-F7). Decided by the harness: for every class of the live registry, 40 (quick) type-directed argument combinations "
    "(None / bool / 0 vs None / XML-special strings / quotes / datetimes / Elements), arguments exposed by the properties, well-formed serialisation, same class "
    "and same canonical XML after re-parse, every generic and every plain-valued Python property equal after re-parse and on the clone; every access path {from_tag, children, get_elements, xpath, parent, clone, "
    "get_element} on sample documents and on a fragment with unconventional namespace prefixes.",
    note="Constructors: Gen/Ctors.lean is REGENERATED from the AST of every constructor at every run (143 (class, parameter) pairs: every parameter that has a "
    "generic attribute property of the same name) and ctor_params_stored re-decides that each is stored in that property - directly, through a method of the "
    "class or by forwarding to a base constructor that stores it; what the constructors do with their other parameters (children, text, computed attributes) "
    "is decided by the oracle only. The registry table is a dump of the running library, not a static translation. Family-specific arguments of Style, arguments stored in child "
    "elements and arguments given as None are not compared with a property. Known finding C14-F3 ('true' / 'false' as strings) is reported at every run.",
    technique="Lean 4 theorems (case analysis on the generic property model, decide over a table dumped from the live registry and over a table translated from the constructors' AST) + type-directed constructor / re-parse oracle",
    design="5/C12",
)

CHECKS["C15"] = dict(
    level="exploration",
    text="PARTIAL, said plainly. A getter modelled as a pure function is read-only by definition, so a Lean statement about most entry points would be empty: the "
    "decision for them is exploration. Proved (package layer, where the code is NOT pure because reads fill caches): Document.get_part / Container.get_part / "
    "reading the manifest keep the content of every name whatever they cache, answer the content of the name, give the same answer the second time, keep the "
    "listing of the parts, for every state and every sequence of reads (C15 theorems over OdfModel/Package.lean); save keeps every parsed part (C11). Proved "
    "(table object layer, OdfModel/TableObj.lean, where reads create and keep Row / Cell wrappers): any sequence of get_value / get_cell / get_row / "
    "get_row_values leaves the XML and the position maps untouched and answers what a table that caches nothing answers; asking twice gives the same answer "
    "(table_reads_keep_document, table_value_twice_same, table_row_twice_same). Explored: "
    "every property and every method whose name says it only reports (get_*, is_*, search*, traverse*, as_*, to_*, show_*, match, text_at, serialize, str, clone, "
    "remove_spans / remove_links, exports, replace without replacement incl. formatted=True, ranged table reads) of Document, Body, Meta, Styles, Content, "
    "Manifest, Table, Row, Cell, Paragraph, Header, Span, List, Frame, Note, TOC, Link, DrawPage on samples, templates and generated spreadsheets with "
    "repetitions, in random order, twice: serialisation of the five XML parts and bytes of the others before / after each call, second answer = first.",
    note="Entry points are enumerated by introspection against reviewed name patterns; documented get-or-create accessors (get_variable_decls, "
    "get_user_field_decls: 'Created if not found') are excluded. Documents with a table of more than 4000 cells are skipped (the property bounds table sizes). "
    "A part that was only loaded lazily in between is compared with its source. The Lean theorems cover the package-layer reads and the cache-filling reads of the table object layer (tied to the code by C02's cache walk).",
    technique="exploration of the read-only API by introspection (before/after serialisation) + Lean 4 theorems for the cache-filling reads of the package layer and of the table object layer",
    design="5/C15",
)

NOT_YET = {}


def main():
    props = [json.loads(l) for l in (VERIF / "properties.jsonl").read_text().splitlines() if l.strip()]
    checks = []
    na = []
    for p in props:
        pid = p["id"]
        c = CHECKS.get(pid)
        if not c:
            na.append({"property_id": pid, "reason": NOT_YET.get(pid, "check not built yet in this session (planned in DESIGN.md section 5); nothing is claimed for it")})
            continue
        checks.append(
            {
                "property_id": pid,
                "quick_cmd": f"./check {pid} --tier quick",
                "thorough_cmd": f"./check {pid} --tier thorough",
                "evidence_file": f"/verif/evidence/{pid}.json",
                "replay_cmd_template": f"./check {pid} --replay {{path}}",
                "engine": "lean4-model+correspondence",
                "level_claimed": {"category": c.get("level", "proof"), "text": c["text"], "design_ref": c["design"]},
                "level_note": NOTE_COMMON + c["note"],
                "technique": c["technique"],
            }
        )
    m = {
        "version": 1,
        "setup_cmd": "cd /verif && /venv/bin/python harness/translate.py && cd lean && lake build OdfModel OdfProofs OdfProps",
        "hooks": {
            "guard": "JDUM_ODFDO_VERIF",
            "enable": "no hook is needed: the checks use the public API of the working tree in /repo/src (editable install) and lxml; the variable is set by the harness but read by no source line",
            "baseline_off_cmd": BASELINE.replace("--junitxml=<file>", "").strip(),
            "source_commits": [],
            "add_only": True,
        },
        "engines": [
            {
                "name": "lean4-model+correspondence",
                "path": "/verif/lean (models, proofs, property theorems, Driver.lean) + /verif/harness (Python: generators, impl runner, oracles)",
                "serves_properties": [c["property_id"] for c in checks],
                "kind_free_text": "machine-checked proof in Lean 4 about an executable model; model tied to the source by a differential correspondence check on every run",
            }
        ],
        "checks": checks,
        "not_applicable": na,
        "notes": "fix: commits made in /repo are listed in /verif/known_findings.jsonl (status fixed; 63 so far). See DESIGN.md (section 10: what was built, "
                 "10.6-10.13: third session). Self-test against seeded changes: 121 stored under /verif/seeded (7 rounds of fresh sub-agents), all caught; "
                 "`bash harness/seedsweep.sh` re-runs every seed against the check of its property on scratch copies of /repo/src (never touches /repo), "
                 "`bash harness/seedrun2.sh <seed> <Cxx>` one of them, `bash harness/cleanruns.sh <VERIF_SEED>` every check once on the tree as it is.",
    }
    (VERIF / "MANIFEST.json").write_text(json.dumps(m, indent=1))
    try:
        import jsonschema

        jsonschema.validate(m, json.loads(Path("/root/.vp/MANIFEST.schema.json").read_text()))
        print("MANIFEST.json valid;", len(checks), "checks,", len(na), "not claimed")
    except ImportError:
        print("written (jsonschema not available)")


if __name__ == "__main__":
    main()
