#!/bin/bash
# seedrun.sh <patch.diff> <Cxx> [tier] : apply a seeded change to /repo, run the check, undo
P=$1; PID=$2; TIER=${3:-quick}
git -C /repo apply $P || { echo "patch does not apply"; exit 2; }
cd /verif && ./check $PID --tier $TIER 2>&1 | tail -${TAILN:-6}
git -C /repo checkout -- .
