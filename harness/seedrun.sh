#!/bin/bash
# seedrun.sh <patch.diff> <Cxx> [tier] : apply a seeded change to /repo, run the check, undo
# (the evidence file and the generated Lean files of the unchanged tree are put back afterwards)
P=$1; PID=$2; TIER=${3:-quick}
git -C /repo apply $P || { echo "patch does not apply"; exit 2; }
cd /verif
cp evidence/$PID.json /tmp/seedrun-$PID-evidence.json 2>/dev/null
./check $PID --tier $TIER 2>&1 | tail -${TAILN:-6}
git -C /repo checkout -- .
[ -f /tmp/seedrun-$PID-evidence.json ] && mv /tmp/seedrun-$PID-evidence.json evidence/$PID.json
/venv/bin/python harness/translate.py > /dev/null 2>&1
