"""Walk of the live mutable objects behind an original and its clones, and the `hp` requests that
replay what was seen on OdfModel/Heap.lean (C10: independence for life as a statement on aliasing).

A *cell* is one mutable Python object reachable from a twin through instance dictionaries and
containers: the attribute dict of an odfdo object, a dict / list / set, an lxml tree (one cell per
tree, identified by its root).  Every cell belongs to the twin it was first reached from.  After
each operation applied to twin X both twins are walked again: new cells are `alloc X owner ...`,
cells whose content changed are `write X owner i v`.  The model answers `ok` only when owner = X
and the object exists; a cell reached from both twins is reported as shared."""
from __future__ import annotations

import hashlib
from decimal import Decimal
from pathlib import PurePath

from lxml import etree

ATOMS = (type(None), bool, int, float, str, complex, Decimal, PurePath)
MAX_DEPTH = 12


def _h(b: bytes) -> str:
    return hashlib.blake2b(b, digest_size=8).hexdigest()


class HeapTrace:
    def __init__(self, case: dict):
        self.case = case
        self.reqs: list = [("hp new", "ok", case)]
        self.cells: dict = {}          # id -> {"owner", "idx", "fp", "path"}
        self.count: dict = {}          # owner -> number of cells
        self.keep: list = []           # keeps every cell alive: ids stay unique
        self.intern: dict = {}
        self.shared: list = []
        self.foreign: list = []
        self.n_alloc = 0
        self.n_write = 0

    # ---- the walk ------------------------------------------------------------------------
    def _atom(self, v):
        if isinstance(v, ATOMS):
            return ("v", repr(v))
        if isinstance(v, (bytes, bytearray)) and not isinstance(v, bytearray):
            return ("b", len(v), _h(v))
        return None

    def _ref(self, v, out, path, depth):
        """fingerprint of a value as a member of a container; walks into it when it is a cell"""
        a = self._atom(v)
        if a is not None:
            return a
        if isinstance(v, tuple):
            return ("t",) + tuple(self._ref(x, out, f"{path}[{i}]", depth + 1) for i, x in enumerate(v))
        if isinstance(v, frozenset):
            return ("fs", repr(sorted(map(repr, v))))
        if isinstance(v, etree._ElementTree):
            v = v.getroot()
            if v is None:
                return ("v", "empty tree")
        if isinstance(v, etree._Element):
            root = v.getroottree().getroot()
            self._visit(root, out, path + "<tree>", depth)
            return ("@", id(root))
        if isinstance(v, (dict, list, set, bytearray)) or (hasattr(v, "__dict__") and type(v).__module__.startswith("odfdo")):
            self._visit(v, out, path, depth)
            return ("@", id(v))
        return ("o", type(v).__name__)           # files, compiled patterns, functions: not followed

    def _visit(self, obj, out, path, depth):
        k = id(obj)
        if k in out or depth > MAX_DEPTH:
            return
        out[k] = None                   # reserve the position (pre-order)
        if isinstance(obj, etree._Element):
            fp = ("tree", _h(etree.tostring(obj)))
        elif isinstance(obj, dict):
            fp = ("dict",) + tuple((repr(kk), self._ref(vv, out, f"{path}[{kk!r}]", depth + 1)) for kk, vv in obj.items())
        elif isinstance(obj, list):
            fp = ("list",) + tuple(self._ref(vv, out, f"{path}[{i}]", depth + 1) for i, vv in enumerate(obj))
        elif isinstance(obj, set):
            fp = ("set", repr(sorted(repr(self._ref(vv, out, path + "{}", depth + 1)) for vv in obj)))
        elif isinstance(obj, bytearray):
            fp = ("ba", _h(bytes(obj)))
        else:
            fp = ("obj", type(obj).__name__) + tuple((kk, self._ref(vv, out, f"{path}.{kk}", depth + 1)) for kk, vv in vars(obj).items())
        out[k] = (obj, fp, path)

    def walk(self, obj) -> dict:
        out: dict = {}
        self._ref(obj, out, type(obj).__name__, 0)
        return out

    def _v(self, fp) -> int:
        if fp not in self.intern:
            self.intern[fp] = len(self.intern) + 1
        return self.intern[fp]

    # ---- one scan = what the operation just applied to `target` did to the objects of `owner` -----------
    def scan(self, owner: int, obj, target: int, what: str = "") -> None:
        found = self.walk(obj)
        fresh = []
        for k, (o, fp, path) in found.items():
            c = self.cells.get(k)
            if c is None:
                idx = self.count.get(owner, 0)
                self.count[owner] = idx + 1
                self.cells[k] = {"owner": owner, "idx": idx, "fp": fp, "path": path}
                self.keep.append(o)
                fresh.append(self._v(fp))
            elif c["owner"] != owner:
                if (k, owner) not in [(s[0], s[1]) for s in self.shared]:
                    self.shared.append((k, owner, c["owner"], path, c["path"], type(o).__name__))
            elif c["fp"] != fp:
                c["fp"] = fp
                self.n_write += 1
                self.reqs.append((f"hp write {target} {owner} {c['idx']} {self._v(fp)}", "ok", {**self.case, "after": what, "object": path, "of_twin": owner, "operation_on_twin": target}))
        if fresh:
            self.n_alloc += len(fresh)
            self.reqs.append((f"hp alloc {target} {owner} {','.join(map(str, fresh))}", f"ok {self.count[owner]}",
                              {**self.case, "after": what, "of_twin": owner, "operation_on_twin": target}))

    def step(self, twins: dict, target: int, what: str) -> None:
        """`twins`: owner -> object; an operation (or a read made by the harness) was just applied to `target`"""
        for owner, obj in twins.items():
            self.scan(owner, obj, target, what)

    def finish(self) -> None:
        for owner in sorted(self.count):
            vals = [None] * self.count[owner]
            for c in self.cells.values():
                if c["owner"] == owner:
                    vals[c["idx"]] = self._v(c["fp"])
            self.reqs.append((f"hp cells {owner}", "ok " + (",".join(map(str, vals)) if vals else "e"), {**self.case, "twin": owner}))
