"""C19 — all ways of addressing cells agree; written addresses parse back to themselves.

correspondence: coordinates.py functions vs OdfModel/Coord.lean on the same inputs
oracle (model-free): bijection, parse/format, str-form == tuple-form in every
coordinate-taking Table/Row method, negative indices, range bounds, named ranges."""
from __future__ import annotations

import core
from core import enc_str, dec_str, err_kind

ALPHA = "ABCDEFGHIJKLMNOPQRSTUVWXYZ"


def fmt_cell(x, y, d2a):
    return f"{d2a(x)}{y + 1}"


def ref_d2a(n: int) -> str:
    """independent reference (bijective base 26), not odfdo code"""
    s = ""
    n += 1
    while n > 0:
        n, r = divmod(n - 1, 26)
        s = ALPHA[r] + s
    return s


def run(chk: core.Check) -> None:
    from odfdo.utils.coordinates import (
        alpha_to_digit,
        convert_coordinates,
        digit_to_alpha,
        increment,
        translate_from_any,
    )

    rng = chk.rng
    chk.rule = (
        "coordinates: column numbers 0..N exhaustively + random to 1e9, words over A-Z, "
        "coordinate strings (cell, area, partial forms, blanks, lower case, malformed stream), "
        "increment lattice; non-trivial = multi-letter column / area or partial string / "
        "negative index / malformed string. tables (repeated cells, rows stored once and standing for 1..3 rows, ragged twin): every coordinate-taking method called "
        "with str form and tuple form, negative indices, range bounds vs slicing of the full "
        "matrix; named ranges over accepted table names; spreadsheets of 2-4 tables whose names "
        "are drawn from one family (a name, the name with a suffix / prefix / both, doubled, cut, "
        "other case, plus unrelated ones: 'Sales' / 'Sales 2024' / 'My Sales x', 'Sheet1' / 'Sheet10'), "
        "each table with its own named ranges (written through the table, through another table "
        "with table_name=, or appended to the body; ranges that point to no table), then a history "
        "of renames of every table in turn (also back to a freed name), added / deleted ranges, "
        "writes through a range, get_named_ranges(table_name=str | list | tuple of 1-3 names, "
        "also names of no table) and save / reload; after every step every range's table name, "
        "parsed area, the values it reads and the per-table filter (str and list form) are compared "
        "with a by-name model; non-trivial history = two table names contain one another; "
        "distinct by canonical input"
    )
    reqs: list[tuple[str, object, dict]] = []  # (driver line, impl answer, case)

    def impl(fn, *a):
        try:
            return ("ok", fn(*a))
        except Exception as e:  # noqa: BLE001
            return ("err", err_kind(e))

    # ---- d2a / a2d ------------------------------------------------------------------
    N = chk.n(20000, 200000)
    nums = list(range(N)) + [rng.randrange(N, 10**9) for _ in range(chk.n(3000, 30000))]
    nums += [16383, 16384, 18277, 18278, 475253, 475254, 26**6, 26**7 + 25]
    for n in nums:
        r = impl(digit_to_alpha, n)
        reqs.append((f"coord d2a {n}", r, {"op": "d2a", "n": n}))
        chk.case(("d2a", n), nontrivial=n >= 26)
        # oracle: bijection and reference
        if r[0] != "ok" or r[1] != ref_d2a(n) or alpha_to_digit(r[1]) != n:
            chk.fail({"op": "bijection", "n": n, "got": r}, "alpha_to_digit(digit_to_alpha(n)) != n or wrong letters")
    words = []
    for ln in range(1, 4):
        if ln <= chk.n(2, 3):
            import itertools

            words += ["".join(w) for w in itertools.product(ALPHA, repeat=ln)]
    for _ in range(chk.n(2000, 20000)):
        w = "".join(rng.choice(ALPHA) for _ in range(rng.randint(3, 9)))
        words.append(w if rng.random() < 0.7 else w.lower())
    for w in words:
        r = impl(alpha_to_digit, w)
        reqs.append((f"coord a2d {enc_str(w)}", r, {"op": "a2d", "w": w}))
        chk.case(("a2d", w), nontrivial=len(w) > 1)
        if r[0] != "ok" or digit_to_alpha(r[1]) != w.upper():
            chk.fail({"op": "bijection_right", "w": w, "got": r}, "digit_to_alpha(alpha_to_digit(w)) != w")
    chk.count("ops", "d2a") ; chk.count("ops", "a2d")

    # ---- convert_coordinates ----------------------------------------------------------
    strs: list[tuple[str, object]] = []  # (string, expected or None)
    lattice = [0, 1, 8, 9, 10, 25, 26, 27, 99, 100, 701, 702, 703, 16383, 16384, 18277, 18278, 10**6]
    for x in lattice:
        for y in lattice:
            strs.append((f"{ref_d2a(x)}{y + 1}", (x, y)))
    for _ in range(chk.n(1500, 20000)):
        x, y, z, t = (rng.choice(lattice + [rng.randrange(10**7)]) for _ in range(4))
        strs.append((f"{ref_d2a(x)}{y + 1}:{ref_d2a(z)}{t + 1}", (x, y, z, t)))
        s = f"{ref_d2a(x)}{y + 1}"
        strs.append((s.lower(), (x, y)))
        strs.append((f" {s} ", (x, y)))
        strs.append((f"{ref_d2a(x)}{y + 1} : {ref_d2a(z)}{t + 1}", (x, y, z, t)))
        strs.append((f"{ref_d2a(x)}:{ref_d2a(z)}", (x, None, z, None)))
        strs.append((f"{y + 1}:{t + 1}", (None, y, None, t)))
        strs.append((f"{ref_d2a(x)}", (x, None)))
        strs.append((f"{y + 1}", (None, y)))
    malformed = ["", ":", "A0", "A-1", "A-0", "A1:", ":B2", "A1:B0", "1A", "A1B", "$A$1", "A 1", "A1:B2:C3",
                 "-", "+", "A+1", "A+0", "A01", "A1.5", "*", "A1;B2", "a0:b1", "AA-12", "0", "-5", "00", "A00"]
    for m in malformed:
        strs.append((m, None))
    for _ in range(chk.n(500, 5000)):
        alphabet = "AZaz019 :-+$.x"
        strs.append(("".join(rng.choice(alphabet) for _ in range(rng.randint(0, 6))), None))
    for s, exp in strs:
        if "_" in s or any(ord(c) > 127 for c in s):
            continue
        r = impl(convert_coordinates, s)
        reqs.append((f"coord conv {enc_str(s)}", r, {"op": "conv", "s": s}))
        chk.case(("conv", s), nontrivial=(":" in s) or exp is None or len(s.strip()) != len(s))
        chk.count("conv", "wellformed" if exp is not None else ("rejected" if r[0] == "err" else "malformed-accepted"))
        if exp is not None and (r[0] != "ok" or tuple(r[1]) != tuple(exp)):
            chk.fail({"op": "parse_format", "s": s, "expected": exp, "got": r}, "written address does not parse back to itself")

    # ---- increment / translate_from_any ----------------------------------------------
    for v in range(-40, 12):
        for step in range(0, 9):
            r = impl(increment, v, step)
            reqs.append((f"coord inc {v} {step}", r, {"op": "inc", "v": v, "step": step}))
            chk.case(("inc", v, step), nontrivial=v < 0)
            if step > 0 and -step <= v < 0 and r != ("ok", step + v):
                chk.fail({"op": "increment", "v": v, "step": step, "got": r}, "negative number does not count from the end")
    for _ in range(chk.n(300, 3000)):
        v = -rng.randrange(1, 10**6)
        step = rng.randrange(0, 2000)
        r = impl(increment, v, step)
        reqs.append((f"coord inc {v} {step}", r, {"op": "inc", "v": v, "step": step}))
        chk.case(("inc", v, step), nontrivial=True)
    for _ in range(chk.n(400, 4000)):
        x = rng.choice(lattice)
        y = rng.choice(lattice)
        ln = rng.randrange(0, 30)
        idx = rng.randrange(2)
        s = rng.choice([f"{ref_d2a(x)}{y + 1}", ref_d2a(x), str(y + 1), "A0", ""])
        r = impl(translate_from_any, s, ln, idx)
        reqs.append((f"coord tfa {enc_str(s)} {ln} {idx}", r, {"op": "tfa", "s": s, "len": ln, "idx": idx}))
        chk.case(("tfa", s, ln, idx), nontrivial=True)

    # ---- correspondence with the Lean model -------------------------------------------
    answers = core.run_driver([q for q, _, _ in reqs])
    for (q, r, case), ans in zip(reqs, answers):
        if r[0] == "err":
            canon = f"err {r[1]}"
        else:
            v = r[1]
            op = case["op"]
            if op == "d2a":
                canon = "ok " + enc_str(v)
            elif op == "conv":
                canon = "ok " + " ".join("N" if c is None else str(c) for c in v)
            else:
                canon = f"ok {v}"
        if canon != ans:
            chk.disagree({**case, "line": q}, f"impl {canon!r} != model {ans!r}")

    table_part(chk)
    named_range_part(chk)
    named_range_history_part(chk)


# ---------------------------------------------------------------------------------------
# tables: string form == tuple form, negative indices, range bounds
# ---------------------------------------------------------------------------------------


def build_table(rng, w, h, ragged=False):
    from odfdo import Table, Row, Cell

    t = Table("T")
    vals = []
    # ragged: rows stored shorter than the table is wide (what set_value / set_cell naturally leave): reads complete them
    y = -1
    while len(vals) < h:
        y += 1
        row = Row()
        rv = []
        x = 0
        wy = w if (not ragged or y == 0) else rng.randint(1, w)
        # rows stored once and standing for 1..3 rows (table:number-rows-repeated): a range may begin or end inside such a run
        rrep = min(rng.choice([1, 1, 2, 3]), h - len(vals))
        while x < wy:
            rep = min(rng.choice([1, 1, 2, 3]), wy - x)
            v = rng.choice([None, f"v{y}_{x}", x * 10 + y])
            row.append_cell(Cell(v, repeated=rep if rep > 1 else None))
            rv += [v] * rep
            x += rep
        if rrep > 1:
            row.repeated = rrep
        t.append_row(row)
        for _ in range(rrep):
            vals.append(rv + [None] * (w - len(rv)))
    return t, vals


def sub(vals, x, y, z, t):
    return [r[x : z + 1] for r in vals[y : t + 1]]


def table_part(chk: core.Check) -> None:
    from odfdo import Element

    rng = chk.rng
    for _ in range(chk.n(60, 600)):
        w = rng.randint(1, 7)
        h = rng.randint(1, 6)
        tb, vals = build_table(rng, w, h)
        tr, rvals = build_table(rng, w, h, ragged=True)
        if rng.random() < 0.5:
            tb = Element.from_tag(tb.serialize())
            tr = Element.from_tag(tr.serialize())
        full = tb.get_values()
        if full != vals:
            chk.fail({"op": "build", "xml": tb.serialize()}, "get_values differs from the built matrix")
            continue
        for _ in range(6):
            x = rng.randrange(w); z = rng.randrange(x, w)
            y = rng.randrange(h); t = rng.randrange(y, h)
            area_s = f"{ref_d2a(x)}{y + 1}:{ref_d2a(z)}{t + 1}"
            cell_s = f"{ref_d2a(x)}{y + 1}"
            case = {"xml": tb.serialize(), "x": x, "y": y, "z": z, "t": t}
            chk.case(("tbl", case["xml"], x, y, z, t), nontrivial=True)
            checks = []
            try:
                checks.append(("get_value", tb.get_value(cell_s), tb.get_value((x, y)), vals[y][x]))
                checks.append(("get_value_neg", tb.get_value((x - w, y - h)), tb.get_value((x, y)), vals[y][x]))
                c1, c2 = tb.get_cell(cell_s), tb.get_cell((x, y))
                checks.append(("get_cell", (c1.get_value(), c1.x, c1.y), (c2.get_value(), c2.x, c2.y), (vals[y][x], x, y)))
                checks.append(("get_values", tb.get_values(area_s), tb.get_values((x, y, z, t)), sub(vals, x, y, z, t)))
                checks.append(("get_values_neg", tb.get_values((x - w, y - h, z - w, t - h)), tb.get_values((x, y, z, t)), sub(vals, x, y, z, t)))
                # the same area of a RAGGED table (rows stored shorter than the table is wide): get_values and its iterator form
                # complete the rows; string / tuple / negative / partial (columns only, rows only) forms
                checks.append(("get_values (ragged)", tr.get_values(area_s), tr.get_values((x, y, z, t)), sub(rvals, x, y, z, t)))
                checks.append(("iter_values (ragged)", [list(r) for r in tr.iter_values(area_s)], [list(r) for r in tr.iter_values((x, y, z, t))], sub(rvals, x, y, z, t)))
                checks.append(("iter_values_neg (ragged)", [list(r) for r in tr.iter_values((x - w, y - h, z - w, t - h))], tr.get_values((x, y, z, t)), sub(rvals, x, y, z, t)))
                checks.append(("get_values(columns) (ragged)", tr.get_values(f"{ref_d2a(x)}:{ref_d2a(z)}"), [list(r) for r in tr.iter_values(f"{ref_d2a(x)}:{ref_d2a(z)}")], sub(rvals, x, 0, z, h - 1)))
                checks.append(("get_values(rows) (ragged)", tr.get_values(f"{y + 1}:{t + 1}"), [list(r) for r in tr.iter_values(f"{y + 1}:{t + 1}")], sub(rvals, 0, y, w - 1, t)))
                g1 = [[c.get_value() for c in r] for r in tb.get_cells(area_s)]
                g2 = [[c.get_value() for c in r] for r in tb.get_cells((x, y, z, t))]
                checks.append(("get_cells", g1, g2, sub(vals, x, y, z, t)))
                r1 = [r.get_values() for r in tb.get_rows(f"{y + 1}:{t + 1}")]
                r2 = [r.get_values() for r in tb.get_rows((y, t))]
                checks.append(("get_rows", [r.y for r in tb.get_rows(f"{y + 1}:{t + 1}")], [r.y for r in tb.get_rows((y, t))], list(range(y, t + 1))))
                checks.append(("get_rows_values", r1, r2, None))
                k1 = [c.x for c in tb.get_columns(f"{ref_d2a(x)}:{ref_d2a(z)}")]
                k2 = [c.x for c in tb.get_columns((x, z))]
                checks.append(("get_columns", k1, k2, list(range(x, z + 1))))
                checks.append(("get_row", tb.get_row(str(y + 1)).get_values(), tb.get_row(y).get_values(), None))
                checks.append(("get_row_neg", tb.get_row(y - h).get_values(), tb.get_row(y).get_values(), None))
                checks.append(("get_column_cells", [c.get_value() for c in tb.get_column_cells(ref_d2a(x))],
                               [c.get_value() for c in tb.get_column_cells(x)], [r[x] for r in vals]))
                checks.append(("get_column_values_neg", tb.get_column_values(x - w), tb.get_column_values(x), [r[x] for r in vals]))
                checks.append(("get_row_values", tb.get_row_values(str(y + 1)), tb.get_row_values(y), vals[y]))
                row = tb.get_row(y)
                checks.append(("Row.get_value", row.get_value(ref_d2a(x)), row.get_value(x), vals[y][x]))
                checks.append(("Row.get_value_neg", row.get_value(x - w), row.get_value(x), vals[y][x]))
                checks.append(("Row.get_values", row.get_values(f"{ref_d2a(x)}:{ref_d2a(z)}"), row.get_values((x, z)), vals[y][x : z + 1]))
                # writers: same effect with either form
                ta = tb.clone; tbb = tb.clone
                ta.set_value(cell_s, "W"); tbb.set_value((x, y), "W")
                checks.append(("set_value", ta.get_values(), tbb.get_values(), None))
                ta = tb.clone; tbb = tb.clone
                ta.set_values([["p", "q"], ["r"]], cell_s); tbb.set_values([["p", "q"], ["r"]], (x, y))
                checks.append(("set_values", ta.get_values(), tbb.get_values(), None))
                ta = tb.clone; tbb = tb.clone
                ta.delete_row(str(y + 1)); tbb.delete_row(y)
                checks.append(("delete_row", ta.get_values(), tbb.get_values(), None))
                ta = tb.clone; tbb = tb.clone
                ta.delete_column(ref_d2a(x)); tbb.delete_column(x)
                checks.append(("delete_column", ta.get_values(), tbb.get_values(), None))
            except Exception as e:  # noqa: BLE001
                chk.fail({**case, "exception": repr(e)}, "coordinate-taking method raised on an in-range address")
                continue
            for name, a, b, exp in checks:
                chk.count("table_methods", name)
                if a != b:
                    chk.fail({**case, "method": name, "str_or_neg_form": a, "tuple_form": b}, f"{name}: the two coordinate forms disagree")
                elif exp is not None and a != exp:
                    chk.fail({**case, "method": name, "got": a, "expected": exp}, f"{name}: result is not bounded by the range / wrong cells")


# ---------------------------------------------------------------------------------------
# named ranges
# ---------------------------------------------------------------------------------------

NAME_ALPHABET = list("ab Z9._-$'é漢&<\"!#()+,;=@{}~")


def named_range_part(chk: core.Check) -> None:
    from odfdo import Document, Element, NamedRange, Table

    rng = chk.rng
    nr_reqs = []
    names = ["a", "a b", "a.b", "a$b", "it's", "x y.z", "é漢", "a'b c", "Sheet1", "a''b", "a&b", "1", "A1", "a.b.c", "$", ".", "a b'c.d$e",
             # the delimiters of the address syntax next to each other inside the name: quote + dot, dot + quote, quote + colon, dollar + quote
             "a'.b", "'.", "x'.'y", "a'.b'.c", ".'", "a':b", "$'a", "a'.$B$2", "''.''"]
    for _ in range(chk.n(150, 3000)):
        names.append("".join(rng.choice(NAME_ALPHABET) for _ in range(rng.randint(1, 7))))
    for tname in names:
        x = rng.choice([0, 1, 25, 26, 701, 702]); y = rng.choice([0, 1, 9, 99])
        z = x + rng.choice([0, 0, 1, 30]); t = y + rng.choice([0, 0, 2])
        try:
            nr = NamedRange("r_one", (x, y, z, t), tname)
        except (ValueError, TypeError):
            chk.count("named_range", "name rejected")
            continue
        accepted = nr.table_name
        nontriv = any(not (c.isalnum() and ord(c) < 128) for c in accepted)
        chk.case(("nr", tname, x, y, z, t), nontrivial=nontriv, sample={"table_name": tname, "crange": [x, y, z, t]})
        chk.count("named_range", "quoted-needed" if nontriv else "plain")
        back = Element.from_tag(nr.serialize())
        case = {"op": "named_range", "table_name": tname, "crange": [x, y, z, t], "xml": nr.serialize()}
        if back.table_name != accepted or tuple(back.crange) != (x, y, z, t) or back.name != "r_one":
            chk.fail({**case, "got": [back.table_name, back.crange]}, "named range does not read back with the same table name and area")
            continue
        # correspondence with OdfModel/Addr.lean: written addresses and what is read from them
        extra = "".join(sorted({c for c in accepted if ord(c) > 127 and c.isalnum()}))
        rng_attr = back.get_attribute_string("table:cell-range-address")
        base_attr = back.get_attribute_string("table:base-cell-address")
        nr_reqs.append((f"addr range {enc_str(accepted)} {enc_str(extra)} {x} {y} {z} {t}", "ok " + enc_str(rng_attr), case))
        nr_reqs.append((f"addr base {enc_str(accepted)} {enc_str(extra)} {x} {y}", "ok " + enc_str(base_attr), case))
        nr_reqs.append((f"addr read {enc_str(rng_attr)}", "ok " + enc_str(back.table_name) + " " + " ".join(map(str, back.crange)), case))
        base = back.get_attribute_string("table:base-cell-address")
        b2 = Element.from_tag(f'<table:named-range table:name="q" table:base-cell-address="{_esc(base)}" table:cell-range-address="{_esc(base)}"/>')
        if b2.table_name != accepted or tuple(b2.crange) != (x, y, x, y):
            chk.fail({**case, "base": base, "got": [b2.table_name, b2.crange]}, "base cell address does not read back")
    # hand-written addresses in the forms other producers write them
    for addr in ["$Sheet1.$A$1", "Sheet1.A1:B2", "$'a b'.$A$1:.$B$2", "'it" + "''" + "s'.C3", "$'x.y'.$AA$10:.$AB$11", " $T.$B$2 ",
                 "$'a$b'.$A$1", "$'" + "''" + "'.$A$1", "$'a'.$A$1:$B$2", "$'a''.b'.$A$1", "$'a''.b'.$A$1:.$B$2", "'x''.''y'.C3"]:
        try:
            e = Element.from_tag(f'<table:named-range table:name="q" table:base-cell-address="{_esc(addr)}" table:cell-range-address="{_esc(addr)}"/>')
            ans = "ok " + enc_str(e.table_name) + " " + " ".join(map(str, e.crange))
        except ValueError:
            ans = "err value"
        nr_reqs.append((f"addr read {enc_str(addr)}", ans, {"op": "read_address", "address": addr}))
        chk.case(("addr", addr), nontrivial=True)
    answers = core.run_driver([q for q, _, _ in nr_reqs])
    for (q, r, case), ans in zip(nr_reqs, answers):
        if r != ans:
            chk.disagree({**case, "line": q}, f"impl {r!r} != model {ans!r}")
    # renaming a table updates the named ranges that point to it
    for i in range(chk.n(25, 200)):
        doc = Document("spreadsheet")
        body = doc.body
        body.clear()
        n1 = rng.choice(["T1", "my tab", "a.b", "it's ok"])
        n2 = rng.choice(["Other", "x y", "c.d", "l'x"])
        new = rng.choice(["New", "new name", "n.m", "q'r"])
        t1 = Table(n1); t2 = Table(n2)
        body.append(t1); body.append(t2)
        t1.set_named_range("r_one", (1, 2, 3, 4))
        t2.set_named_range("r_two", "B2")
        t1.set_named_range("r_three", "C3:D4")
        case = {"op": "rename", "n1": n1, "n2": n2, "new": new}
        chk.case(("rename", n1, n2, new), nontrivial=True)
        try:
            t1.name = new
            doc2 = Document(_roundtrip(doc))
            got = {nr.name: (nr.table_name, tuple(nr.crange)) for nr in doc2.body.get_named_ranges()}
        except Exception as e:  # noqa: BLE001
            chk.fail({**case, "exception": repr(e)}, "rename / reload raised")
            continue
        exp = {"r_one": (new, (1, 2, 3, 4)), "r_two": (n2, (1, 1, 1, 1)), "r_three": (new, (2, 2, 3, 3))}
        if got != exp:
            chk.fail({**case, "got": got, "expected": exp}, "renaming a table does not update exactly the named ranges that point to it")


# ---------------------------------------------------------------------------------------
# named ranges of several tables whose names contain one another: histories of renames,
# filters by table name, added / deleted ranges, writes through a range, save / reload
# ---------------------------------------------------------------------------------------

NR_BASES = ["Sales", "Sheet1", "a", "T", "my tab", "a.b", "it's ok", "é漢", "x$y", "Q1 2024", "2024", "Data_1", "A1"]
NR_SUFFIXES = [" 2024", "0", "1", ".x", " (2)", "_old", "s", " b", "'s x", "é", " ", "$", ".", "-1"]
NR_PREFIXES = ["My ", "x", "Old.", "2024 ", "a'", "_", "$", "é", "Sheet"]
NRH_W, NRH_H = 4, 4


def _accepted_name(name):
    """the table name as odfdo accepts it, None when the name check refuses it"""
    from odfdo import Table

    try:
        return Table(name).name
    except (ValueError, TypeError):
        return None


def nrh_name_family(rng) -> list[str]:
    """a pool of accepted table names most of which contain / are contained in another one"""
    base = None
    while not base:
        if rng.random() < 0.7:
            base = rng.choice(NR_BASES)
        else:
            base = _accepted_name("".join(rng.choice(NAME_ALPHABET) for _ in range(rng.randint(1, 4))))
    pool = [base]
    for _ in range(rng.randint(5, 8)):
        src = rng.choice(pool)  # chains: several levels of nesting
        kind = rng.choice(["suffix", "suffix", "prefix", "middle", "case", "double", "cut", "unrelated"])
        if kind == "suffix":
            cand = src + rng.choice(NR_SUFFIXES + [str(rng.randrange(100))])
        elif kind == "prefix":
            cand = rng.choice(NR_PREFIXES) + src
        elif kind == "middle":
            cand = rng.choice(NR_PREFIXES) + src + rng.choice(NR_SUFFIXES)
        elif kind == "case":
            cand = rng.choice([src.lower(), src.upper(), src.swapcase()])
        elif kind == "double":
            cand = src + rng.choice(["", " ", "."]) + src
        elif kind == "cut":
            cut = rng.randrange(len(src))
            cand = src[:cut] if rng.random() < 0.5 else src[cut:]
        else:
            cand = rng.choice(["Stock", "other", "zz top", "w.v", "Ünrelated"])
        cand = _accepted_name(cand) if cand else None
        if cand and cand not in pool:
            pool.append(cand)
    return pool


def nrh_values(i: int) -> list[list[str]]:
    return [[f"{i}:{ref_d2a(x)}{y + 1}" for x in range(NRH_W)] for y in range(NRH_H)]


class NrhModel:
    """by-name reference of the named ranges of a spreadsheet (no odfdo code)"""

    def __init__(self, tables: list[str]) -> None:
        self.names = list(tables)  # index = identity of the table
        self.values = [nrh_values(i) for i in range(len(tables))]
        self.ranges: dict[str, list] = {}  # range name -> [table name, (x, y, z, t)]

    def index_of(self, table_name):
        return self.names.index(table_name) if table_name in self.names else None

    def dangling(self) -> set[str]:
        return {tn for tn, _ in self.ranges.values() if tn not in self.names}

    def of_tables(self, table_names) -> list[str]:
        return sorted(n for n, (tn, _) in self.ranges.items() if tn in table_names)

    def apply(self, step: dict) -> None:
        do = step["do"]
        if do == "add":
            self.ranges[step["name"]] = [step["table_name"], _nrh_area(step["crange"])]
        elif do == "rename":
            old = self.names[step["table"]]
            for r in self.ranges.values():
                if r[0] == old:
                    r[0] = step["new"]
            self.names[step["table"]] = step["new"]
        elif do == "delete":
            del self.ranges[step["name"]]
        elif do == "write":
            tn, (x, y, _z, _t) = self.ranges[step["name"]]
            self.values[self.index_of(tn)][y][x] = step["value"]
        # "filter" and "reload" change nothing


def _nrh_area(crange) -> tuple:
    """expected (x, y, z, t) of a generated coordinate (str forms are written with ref_d2a)"""
    if isinstance(crange, str):
        out = []
        for part in crange.split(":"):
            letters = "".join(c for c in part if c.isalpha())
            n = 0
            for c in letters:
                n = n * 26 + ALPHA.index(c) + 1
            out += [n - 1, int(part[len(letters):]) - 1]
        crange = out
    crange = list(crange)
    return tuple(crange if len(crange) == 4 else crange * 2)


def _nrh_relation(names: list[str]) -> bool:
    return any(a != b and a in b for a in names for b in names)


def nrh_generate(rng, chk=None) -> dict:
    """a whole history, chosen with the model only (the implementation is not consulted)"""
    pool = nrh_name_family(rng)
    k = min(rng.choice([2, 2, 3, 3, 3, 4]), len(pool) - 1) if len(pool) > 2 else min(2, len(pool))
    tables = rng.sample(pool, k)
    model = NrhModel(tables)
    steps: list[dict] = []
    counter = [0]

    def add_step(dangling_ok=True):
        x = rng.randrange(NRH_W); z = rng.randrange(x, NRH_W)
        y = rng.randrange(NRH_H); t = rng.randrange(y, NRH_H)
        form = rng.choice(["str_cell", "tuple2", "str_area", "tuple4", "list4"])
        if form == "str_cell":
            crange = f"{ref_d2a(x)}{y + 1}"
        elif form == "tuple2":
            crange = [x, y]
        elif form == "str_area":
            crange = f"{ref_d2a(x)}{y + 1}:{ref_d2a(z)}{t + 1}"
        else:
            crange = [x, y, z, t]
        free = [n for n in pool if n not in model.names]
        if dangling_ok and free and rng.random() < 0.12:
            target, via = rng.choice(free), rng.choice(["other", "body"])
        else:
            target, via = rng.choice(model.names), rng.choice(["own", "own", "other", "body"])
        name = f"nr_{counter[0]}"
        counter[0] += 1
        return {"do": "add", "name": name, "crange": crange, "form": form, "table_name": target, "via": via,
                "caller": rng.randrange(len(model.names))}

    def push(step):
        model.apply(step)
        steps.append(step)

    # every table gets its own ranges (now and then one table has none)
    for i, tn in enumerate(tables):
        for _ in range(rng.choice([0, 1, 1, 2, 2, 3])):
            st = add_step(dangling_ok=False)
            st["table_name"] = tn
            if st["via"] == "own":
                st["caller"] = i
            push(st)
    # then: every table renamed in turn (random order), other steps in between
    todo = list(range(len(tables)))
    rng.shuffle(todo)
    todo += [rng.randrange(len(tables)) for _ in range(rng.choice([0, 1, 2]))]
    for i in todo:
        for _ in range(rng.choice([0, 0, 1, 2])):
            kind = rng.choice(["add", "add", "delete", "write", "filter", "filter", "reload"])
            if kind == "add":
                push(add_step())
            elif kind == "delete" and model.ranges:
                push({"do": "delete", "name": rng.choice(sorted(model.ranges)), "caller": rng.randrange(len(model.names))})
            elif kind == "write":
                live = sorted(n for n, (tn, _) in model.ranges.items() if tn in model.names)
                if live:
                    push({"do": "write", "name": rng.choice(live), "value": f"w{len(steps)}"})
            elif kind == "filter":
                form = rng.choice(["str", "str", "list", "tuple"])
                cands = model.names * 2 + pool
                arg = [rng.choice(cands) for _ in range(1 if form == "str" else rng.randint(1, 3))]
                push({"do": "filter", "caller": rng.randrange(len(model.names)), "form": form, "arg": arg})
            elif kind == "reload":
                push({"do": "reload"})
        blocked = set(model.names) | model.dangling()
        free = [n for n in pool if n not in blocked]
        if rng.random() < 0.06 or not free:
            new = model.names[i]  # renamed to the name it has
        else:
            new = rng.choice(free)
        if chk is not None:
            old = model.names[i]
            others = [n for j, n in enumerate(model.names) if j != i]
            rel = ("contains-other" if any(o in old for o in others) else
                   "contained-in-other" if any(old in o for o in others) else "unrelated")
            chk.count("nr_history_rename", rel + ("" if model.of_tables([old]) else " (no range of its own)"))
        push({"do": "rename", "table": i, "new": new})
    if rng.random() < 0.5:
        push({"do": "reload"})
    return {"op": "nr_history", "tables": tables, "pool": pool, "steps": steps}


def nrh_run(hist: dict, sweep: bool = True):
    """execute a history on odfdo; compare with the by-name model after every step.
    Returns None or the first problem {"step": k, "what": ..., "got": ..., "expected": ...}"""
    from odfdo import Document, NamedRange, Table

    model = NrhModel(hist["tables"])
    doc = Document("spreadsheet")
    body = doc.body
    body.clear()
    tables = []
    for i, tn in enumerate(hist["tables"]):
        tb = Table(tn, width=NRH_W, height=NRH_H)
        tb.set_values(nrh_values(i))
        body.append(tb)
        tables.append(tb)

    def problem(k, what, got, expected):
        return {"step": k, "step_done": hist["steps"][k] if k >= 0 else None, "what": what, "got": got, "expected": expected}

    def verify(k, read_values=True):
        got = sorted([nr.name, nr.table_name, list(nr.crange)] for nr in body.get_named_ranges())
        exp = sorted([n, tn, list(area)] for n, (tn, area) in model.ranges.items())
        if got != exp:
            last = hist["steps"][k]["do"] if k >= 0 else "build"
            what = {
                "rename": "renaming a table does not update exactly the named ranges that point to it "
                          "(a range of another table changed its table name, or a range of the renamed table kept the old one)",
                "reload": "named ranges are not read back after save / reload with the table name and area they were written with",
            }.get(last, f"after '{last}' the named ranges are not read back with the table name and area they were written with")
            return problem(k, what, got, exp)
        names = [tb.name for tb in tables]
        if names != model.names:
            return problem(k, "table names differ from the names given", names, model.names)
        # the filter by table name, str and list form, asked through every table in turn
        for j, tn in enumerate(model.names + sorted(model.dangling())) if sweep else ():
            caller = tables[(j + k) % len(tables)]
            exp_f = model.of_tables([tn])
            for form, arg in (("str", tn), ("list", [tn])):
                got_f = sorted(nr.name for nr in caller.get_named_ranges(table_name=arg))
                if got_f != exp_f:
                    return problem(k, f"get_named_ranges(table_name={arg!r}) ({form} form) does not return exactly the named ranges that point to that table", got_f, exp_f)
        # what each range reads
        for n, (tn, (x, y, z, t)) in model.ranges.items() if read_values else ():
            i = model.index_of(tn)
            if i is None:
                continue
            nr = body.get_named_range(n)
            exp_v = [model.values[i][y][x], sub(model.values[i], x, y, z, t)]
            try:
                got_v = [nr.get_value(), nr.get_values()]
            except Exception as e:  # noqa: BLE001
                got_v = repr(e)
            if got_v != exp_v:
                return problem(k, f"named range {n!r} (table {tn!r}) does not read the cells of its table and area", got_v, exp_v)
        return None

    for k, st in enumerate(hist["steps"]):
        do = st["do"]
        try:
            if do == "add":
                crange = st["crange"]
                if st["form"] in ("tuple2", "tuple4"):
                    crange = tuple(crange)
                if st["via"] == "own":
                    tables[model.index_of(st["table_name"])].set_named_range(st["name"], crange)
                elif st["via"] == "other":
                    tables[st["caller"]].set_named_range(st["name"], crange, table_name=st["table_name"])
                else:
                    body.append_named_range(NamedRange(st["name"], crange, st["table_name"]))
            elif do == "rename":
                tables[st["table"]].name = st["new"]
            elif do == "delete":
                tables[st["caller"]].delete_named_range(st["name"])
            elif do == "write":
                body.get_named_range(st["name"]).set_value(st["value"])
            elif do == "reload":
                doc = Document(_roundtrip(doc))
                body = doc.body
                tables = body.get_tables()
            elif do == "filter":
                arg = st["arg"][0] if st["form"] == "str" else (tuple(st["arg"]) if st["form"] == "tuple" else list(st["arg"]))
                got_f = sorted(nr.name for nr in tables[st["caller"]].get_named_ranges(table_name=arg))
                exp_f = model.of_tables(st["arg"])
                if got_f != exp_f:
                    return problem(k, f"get_named_ranges(table_name={arg!r}) does not return exactly the named ranges that point to the named tables", got_f, exp_f)
        except Exception as e:  # noqa: BLE001
            return problem(k, f"step '{do}' raised", repr(e), None)
        model.apply(st)
        nxt = hist["steps"][k + 1]["do"] if k + 1 < len(hist["steps"]) else None
        if do == "add" and nxt == "add":
            continue  # a run of added ranges is checked after its last one
        # the cells are read after the steps that can change what a range reads, and at the end
        p = verify(k, read_values=do in ("rename", "write", "reload") or nxt in (None, "rename"))
        if p:
            return p
    return None


def named_range_history_part(chk: core.Check) -> None:
    import json

    rng = chk.rng
    for _ in range(chk.n(80, 1500)):
        hist = nrh_generate(rng, chk)
        nested = _nrh_relation(hist["tables"])
        chk.case(("nr_history", json.dumps(hist, sort_keys=True, ensure_ascii=False)), nontrivial=nested,
                 sample={"tables": hist["tables"], "steps": len(hist["steps"])})
        chk.count("nr_history_tables", f"{len(hist['tables'])} tables, " + ("names contain one another" if nested else "unrelated names"))
        for st in hist["steps"]:
            chk.count("nr_history_steps", st["do"] + (":" + st["form"] if st["do"] == "filter" else ":" + st["via"] if st["do"] == "add" else ""))
        p = nrh_run(hist)
        if p:
            chk.fail({**hist, "problem": p}, p["what"])
            # the filter sweep stops a history early: see what the other clauses say without it
            p2 = nrh_run(hist, sweep=False) if p["what"].startswith("get_named_ranges(") else None
            if p2 and p2["what"] != p["what"]:
                chk.fail({**hist, "sweep": False, "problem": p2}, p2["what"])


def _esc(s: str) -> str:
    return s.replace("&", "&amp;").replace("<", "&lt;").replace('"', "&quot;")


def _roundtrip(doc):
    import io

    bio = io.BytesIO()
    doc.save(bio)
    bio.seek(0)
    return bio


def replay(obj: dict) -> int:
    case = obj.get("case", obj)
    if isinstance(case, dict) and case.get("op") == "nr_history":
        p = nrh_run(case, sweep=case.get("sweep", True))
        print("reproduced:" if p else "not reproduced", p)
        return 1 if p else 0
    print(obj)
    return 0
