"""C19 — all ways of addressing cells agree; written addresses parse back to themselves.

correspondence: coordinates.py functions vs OdfModel/Coord.lean on the same inputs
oracle (model-free): bijection, parse/format, str-form == tuple-form in every
coordinate-taking Table/Row method, negative indices, range bounds, named ranges."""
from __future__ import annotations

import core
from core import enc_str, dec_str, err_kind

ALPHA = "ABCDEFGHIJKLMNOPQRSTUVWXYZ"


def fmt_cell(x, y, d2a):
    return f"{d2a(x)}{y + 1}"


def ref_d2a(n: int) -> str:
    """independent reference (bijective base 26), not odfdo code"""
    s = ""
    n += 1
    while n > 0:
        n, r = divmod(n - 1, 26)
        s = ALPHA[r] + s
    return s


def run(chk: core.Check) -> None:
    from odfdo.utils.coordinates import (
        alpha_to_digit,
        convert_coordinates,
        digit_to_alpha,
        increment,
        translate_from_any,
    )

    rng = chk.rng
    chk.rule = (
        "coordinates: column numbers 0..N exhaustively + random to 1e9, words over A-Z, "
        "coordinate strings (cell, area, partial forms, blanks, lower case, malformed stream), "
        "increment lattice; non-trivial = multi-letter column / area or partial string / "
        "negative index / malformed string. tables: every coordinate-taking method called "
        "with str form and tuple form, negative indices, range bounds vs slicing of the full "
        "matrix; named ranges over accepted table names; distinct by canonical input"
    )
    reqs: list[tuple[str, object, dict]] = []  # (driver line, impl answer, case)

    def impl(fn, *a):
        try:
            return ("ok", fn(*a))
        except Exception as e:  # noqa: BLE001
            return ("err", err_kind(e))

    # ---- d2a / a2d ------------------------------------------------------------------
    N = chk.n(20000, 200000)
    nums = list(range(N)) + [rng.randrange(N, 10**9) for _ in range(chk.n(3000, 30000))]
    nums += [16383, 16384, 18277, 18278, 475253, 475254, 26**6, 26**7 + 25]
    for n in nums:
        r = impl(digit_to_alpha, n)
        reqs.append((f"coord d2a {n}", r, {"op": "d2a", "n": n}))
        chk.case(("d2a", n), nontrivial=n >= 26)
        # oracle: bijection and reference
        if r[0] != "ok" or r[1] != ref_d2a(n) or alpha_to_digit(r[1]) != n:
            chk.fail({"op": "bijection", "n": n, "got": r}, "alpha_to_digit(digit_to_alpha(n)) != n or wrong letters")
    words = []
    for ln in range(1, 4):
        if ln <= chk.n(2, 3):
            import itertools

            words += ["".join(w) for w in itertools.product(ALPHA, repeat=ln)]
    for _ in range(chk.n(2000, 20000)):
        w = "".join(rng.choice(ALPHA) for _ in range(rng.randint(3, 9)))
        words.append(w if rng.random() < 0.7 else w.lower())
    for w in words:
        r = impl(alpha_to_digit, w)
        reqs.append((f"coord a2d {enc_str(w)}", r, {"op": "a2d", "w": w}))
        chk.case(("a2d", w), nontrivial=len(w) > 1)
        if r[0] != "ok" or digit_to_alpha(r[1]) != w.upper():
            chk.fail({"op": "bijection_right", "w": w, "got": r}, "digit_to_alpha(alpha_to_digit(w)) != w")
    chk.count("ops", "d2a") ; chk.count("ops", "a2d")

    # ---- convert_coordinates ----------------------------------------------------------
    strs: list[tuple[str, object]] = []  # (string, expected or None)
    lattice = [0, 1, 8, 9, 10, 25, 26, 27, 99, 100, 701, 702, 703, 16383, 16384, 18277, 18278, 10**6]
    for x in lattice:
        for y in lattice:
            strs.append((f"{ref_d2a(x)}{y + 1}", (x, y)))
    for _ in range(chk.n(1500, 20000)):
        x, y, z, t = (rng.choice(lattice + [rng.randrange(10**7)]) for _ in range(4))
        strs.append((f"{ref_d2a(x)}{y + 1}:{ref_d2a(z)}{t + 1}", (x, y, z, t)))
        s = f"{ref_d2a(x)}{y + 1}"
        strs.append((s.lower(), (x, y)))
        strs.append((f" {s} ", (x, y)))
        strs.append((f"{ref_d2a(x)}{y + 1} : {ref_d2a(z)}{t + 1}", (x, y, z, t)))
        strs.append((f"{ref_d2a(x)}:{ref_d2a(z)}", (x, None, z, None)))
        strs.append((f"{y + 1}:{t + 1}", (None, y, None, t)))
        strs.append((f"{ref_d2a(x)}", (x, None)))
        strs.append((f"{y + 1}", (None, y)))
    malformed = ["", ":", "A0", "A-1", "A-0", "A1:", ":B2", "A1:B0", "1A", "A1B", "$A$1", "A 1", "A1:B2:C3",
                 "-", "+", "A+1", "A+0", "A01", "A1.5", "*", "A1;B2", "a0:b1", "AA-12", "0", "-5", "00", "A00"]
    for m in malformed:
        strs.append((m, None))
    for _ in range(chk.n(500, 5000)):
        alphabet = "AZaz019 :-+$.x"
        strs.append(("".join(rng.choice(alphabet) for _ in range(rng.randint(0, 6))), None))
    for s, exp in strs:
        if "_" in s or any(ord(c) > 127 for c in s):
            continue
        r = impl(convert_coordinates, s)
        reqs.append((f"coord conv {enc_str(s)}", r, {"op": "conv", "s": s}))
        chk.case(("conv", s), nontrivial=(":" in s) or exp is None or len(s.strip()) != len(s))
        chk.count("conv", "wellformed" if exp is not None else ("rejected" if r[0] == "err" else "malformed-accepted"))
        if exp is not None and (r[0] != "ok" or tuple(r[1]) != tuple(exp)):
            chk.fail({"op": "parse_format", "s": s, "expected": exp, "got": r}, "written address does not parse back to itself")

    # ---- increment / translate_from_any ----------------------------------------------
    for v in range(-40, 12):
        for step in range(0, 9):
            r = impl(increment, v, step)
            reqs.append((f"coord inc {v} {step}", r, {"op": "inc", "v": v, "step": step}))
            chk.case(("inc", v, step), nontrivial=v < 0)
            if step > 0 and -step <= v < 0 and r != ("ok", step + v):
                chk.fail({"op": "increment", "v": v, "step": step, "got": r}, "negative number does not count from the end")
    for _ in range(chk.n(300, 3000)):
        v = -rng.randrange(1, 10**6)
        step = rng.randrange(0, 2000)
        r = impl(increment, v, step)
        reqs.append((f"coord inc {v} {step}", r, {"op": "inc", "v": v, "step": step}))
        chk.case(("inc", v, step), nontrivial=True)
    for _ in range(chk.n(400, 4000)):
        x = rng.choice(lattice)
        y = rng.choice(lattice)
        ln = rng.randrange(0, 30)
        idx = rng.randrange(2)
        s = rng.choice([f"{ref_d2a(x)}{y + 1}", ref_d2a(x), str(y + 1), "A0", ""])
        r = impl(translate_from_any, s, ln, idx)
        reqs.append((f"coord tfa {enc_str(s)} {ln} {idx}", r, {"op": "tfa", "s": s, "len": ln, "idx": idx}))
        chk.case(("tfa", s, ln, idx), nontrivial=True)

    # ---- correspondence with the Lean model -------------------------------------------
    answers = core.run_driver([q for q, _, _ in reqs])
    for (q, r, case), ans in zip(reqs, answers):
        if r[0] == "err":
            canon = f"err {r[1]}"
        else:
            v = r[1]
            op = case["op"]
            if op == "d2a":
                canon = "ok " + enc_str(v)
            elif op == "conv":
                canon = "ok " + " ".join("N" if c is None else str(c) for c in v)
            else:
                canon = f"ok {v}"
        if canon != ans:
            chk.disagree({**case, "line": q}, f"impl {canon!r} != model {ans!r}")

    table_part(chk)
    named_range_part(chk)


# ---------------------------------------------------------------------------------------
# tables: string form == tuple form, negative indices, range bounds
# ---------------------------------------------------------------------------------------


def build_table(rng, w, h):
    from odfdo import Table, Row, Cell

    t = Table("T")
    vals = []
    for y in range(h):
        row = Row()
        rv = []
        x = 0
        while x < w:
            rep = min(rng.choice([1, 1, 2, 3]), w - x)
            v = rng.choice([None, f"v{y}_{x}", x * 10 + y])
            row.append_cell(Cell(v, repeated=rep if rep > 1 else None))
            rv += [v] * rep
            x += rep
        t.append_row(row)
        vals.append(rv)
    return t, vals


def sub(vals, x, y, z, t):
    return [r[x : z + 1] for r in vals[y : t + 1]]


def table_part(chk: core.Check) -> None:
    from odfdo import Element

    rng = chk.rng
    for _ in range(chk.n(60, 600)):
        w = rng.randint(1, 7)
        h = rng.randint(1, 6)
        tb, vals = build_table(rng, w, h)
        if rng.random() < 0.5:
            tb = Element.from_tag(tb.serialize())
        full = tb.get_values()
        if full != vals:
            chk.fail({"op": "build", "xml": tb.serialize()}, "get_values differs from the built matrix")
            continue
        for _ in range(6):
            x = rng.randrange(w); z = rng.randrange(x, w)
            y = rng.randrange(h); t = rng.randrange(y, h)
            area_s = f"{ref_d2a(x)}{y + 1}:{ref_d2a(z)}{t + 1}"
            cell_s = f"{ref_d2a(x)}{y + 1}"
            case = {"xml": tb.serialize(), "x": x, "y": y, "z": z, "t": t}
            chk.case(("tbl", case["xml"], x, y, z, t), nontrivial=True)
            checks = []
            try:
                checks.append(("get_value", tb.get_value(cell_s), tb.get_value((x, y)), vals[y][x]))
                checks.append(("get_value_neg", tb.get_value((x - w, y - h)), tb.get_value((x, y)), vals[y][x]))
                c1, c2 = tb.get_cell(cell_s), tb.get_cell((x, y))
                checks.append(("get_cell", (c1.get_value(), c1.x, c1.y), (c2.get_value(), c2.x, c2.y), (vals[y][x], x, y)))
                checks.append(("get_values", tb.get_values(area_s), tb.get_values((x, y, z, t)), sub(vals, x, y, z, t)))
                checks.append(("get_values_neg", tb.get_values((x - w, y - h, z - w, t - h)), tb.get_values((x, y, z, t)), sub(vals, x, y, z, t)))
                g1 = [[c.get_value() for c in r] for r in tb.get_cells(area_s)]
                g2 = [[c.get_value() for c in r] for r in tb.get_cells((x, y, z, t))]
                checks.append(("get_cells", g1, g2, sub(vals, x, y, z, t)))
                r1 = [r.get_values() for r in tb.get_rows(f"{y + 1}:{t + 1}")]
                r2 = [r.get_values() for r in tb.get_rows((y, t))]
                checks.append(("get_rows", [r.y for r in tb.get_rows(f"{y + 1}:{t + 1}")], [r.y for r in tb.get_rows((y, t))], list(range(y, t + 1))))
                checks.append(("get_rows_values", r1, r2, None))
                k1 = [c.x for c in tb.get_columns(f"{ref_d2a(x)}:{ref_d2a(z)}")]
                k2 = [c.x for c in tb.get_columns((x, z))]
                checks.append(("get_columns", k1, k2, list(range(x, z + 1))))
                checks.append(("get_row", tb.get_row(str(y + 1)).get_values(), tb.get_row(y).get_values(), None))
                checks.append(("get_row_neg", tb.get_row(y - h).get_values(), tb.get_row(y).get_values(), None))
                checks.append(("get_column_cells", [c.get_value() for c in tb.get_column_cells(ref_d2a(x))],
                               [c.get_value() for c in tb.get_column_cells(x)], [r[x] for r in vals]))
                checks.append(("get_column_values_neg", tb.get_column_values(x - w), tb.get_column_values(x), [r[x] for r in vals]))
                checks.append(("get_row_values", tb.get_row_values(str(y + 1)), tb.get_row_values(y), vals[y]))
                row = tb.get_row(y)
                checks.append(("Row.get_value", row.get_value(ref_d2a(x)), row.get_value(x), vals[y][x]))
                checks.append(("Row.get_value_neg", row.get_value(x - w), row.get_value(x), vals[y][x]))
                checks.append(("Row.get_values", row.get_values(f"{ref_d2a(x)}:{ref_d2a(z)}"), row.get_values((x, z)), vals[y][x : z + 1]))
                # writers: same effect with either form
                ta = tb.clone; tbb = tb.clone
                ta.set_value(cell_s, "W"); tbb.set_value((x, y), "W")
                checks.append(("set_value", ta.get_values(), tbb.get_values(), None))
                ta = tb.clone; tbb = tb.clone
                ta.set_values([["p", "q"], ["r"]], cell_s); tbb.set_values([["p", "q"], ["r"]], (x, y))
                checks.append(("set_values", ta.get_values(), tbb.get_values(), None))
                ta = tb.clone; tbb = tb.clone
                ta.delete_row(str(y + 1)); tbb.delete_row(y)
                checks.append(("delete_row", ta.get_values(), tbb.get_values(), None))
                ta = tb.clone; tbb = tb.clone
                ta.delete_column(ref_d2a(x)); tbb.delete_column(x)
                checks.append(("delete_column", ta.get_values(), tbb.get_values(), None))
            except Exception as e:  # noqa: BLE001
                chk.fail({**case, "exception": repr(e)}, "coordinate-taking method raised on an in-range address")
                continue
            for name, a, b, exp in checks:
                chk.count("table_methods", name)
                if a != b:
                    chk.fail({**case, "method": name, "str_or_neg_form": a, "tuple_form": b}, f"{name}: the two coordinate forms disagree")
                elif exp is not None and a != exp:
                    chk.fail({**case, "method": name, "got": a, "expected": exp}, f"{name}: result is not bounded by the range / wrong cells")


# ---------------------------------------------------------------------------------------
# named ranges
# ---------------------------------------------------------------------------------------

NAME_ALPHABET = list("ab Z9._-$'é漢&<\"!#()+,;=@{}~")


def named_range_part(chk: core.Check) -> None:
    from odfdo import Document, Element, NamedRange, Table

    rng = chk.rng
    nr_reqs = []
    names = ["a", "a b", "a.b", "a$b", "it's", "x y.z", "é漢", "a'b c", "Sheet1", "a''b", "a&b", "1", "A1", "a.b.c", "$", ".", "a b'c.d$e"]
    for _ in range(chk.n(150, 3000)):
        names.append("".join(rng.choice(NAME_ALPHABET) for _ in range(rng.randint(1, 7))))
    for tname in names:
        x = rng.choice([0, 1, 25, 26, 701, 702]); y = rng.choice([0, 1, 9, 99])
        z = x + rng.choice([0, 0, 1, 30]); t = y + rng.choice([0, 0, 2])
        try:
            nr = NamedRange("r_one", (x, y, z, t), tname)
        except (ValueError, TypeError):
            chk.count("named_range", "name rejected")
            continue
        accepted = nr.table_name
        nontriv = any(not (c.isalnum() and ord(c) < 128) for c in accepted)
        chk.case(("nr", tname, x, y, z, t), nontrivial=nontriv, sample={"table_name": tname, "crange": [x, y, z, t]})
        chk.count("named_range", "quoted-needed" if nontriv else "plain")
        back = Element.from_tag(nr.serialize())
        case = {"op": "named_range", "table_name": tname, "crange": [x, y, z, t], "xml": nr.serialize()}
        if back.table_name != accepted or tuple(back.crange) != (x, y, z, t) or back.name != "r_one":
            chk.fail({**case, "got": [back.table_name, back.crange]}, "named range does not read back with the same table name and area")
            continue
        # correspondence with OdfModel/Addr.lean: written addresses and what is read from them
        extra = "".join(sorted({c for c in accepted if ord(c) > 127 and c.isalnum()}))
        rng_attr = back.get_attribute_string("table:cell-range-address")
        base_attr = back.get_attribute_string("table:base-cell-address")
        nr_reqs.append((f"addr range {enc_str(accepted)} {enc_str(extra)} {x} {y} {z} {t}", "ok " + enc_str(rng_attr), case))
        nr_reqs.append((f"addr base {enc_str(accepted)} {enc_str(extra)} {x} {y}", "ok " + enc_str(base_attr), case))
        nr_reqs.append((f"addr read {enc_str(rng_attr)}", "ok " + enc_str(back.table_name) + " " + " ".join(map(str, back.crange)), case))
        base = back.get_attribute_string("table:base-cell-address")
        b2 = Element.from_tag(f'<table:named-range table:name="q" table:base-cell-address="{_esc(base)}" table:cell-range-address="{_esc(base)}"/>')
        if b2.table_name != accepted or tuple(b2.crange) != (x, y, x, y):
            chk.fail({**case, "base": base, "got": [b2.table_name, b2.crange]}, "base cell address does not read back")
    # hand-written addresses in the forms other producers write them
    for addr in ["$Sheet1.$A$1", "Sheet1.A1:B2", "$'a b'.$A$1:.$B$2", "'it" + "''" + "s'.C3", "$'x.y'.$AA$10:.$AB$11", " $T.$B$2 ",
                 "$'a$b'.$A$1", "$'" + "''" + "'.$A$1", "$'a'.$A$1:$B$2"]:
        try:
            e = Element.from_tag(f'<table:named-range table:name="q" table:base-cell-address="{_esc(addr)}" table:cell-range-address="{_esc(addr)}"/>')
            ans = "ok " + enc_str(e.table_name) + " " + " ".join(map(str, e.crange))
        except ValueError:
            ans = "err value"
        nr_reqs.append((f"addr read {enc_str(addr)}", ans, {"op": "read_address", "address": addr}))
        chk.case(("addr", addr), nontrivial=True)
    answers = core.run_driver([q for q, _, _ in nr_reqs])
    for (q, r, case), ans in zip(nr_reqs, answers):
        if r != ans:
            chk.disagree({**case, "line": q}, f"impl {r!r} != model {ans!r}")
    # renaming a table updates the named ranges that point to it
    for i in range(chk.n(25, 200)):
        doc = Document("spreadsheet")
        body = doc.body
        body.clear()
        n1 = rng.choice(["T1", "my tab", "a.b", "it's ok"])
        n2 = rng.choice(["Other", "x y", "c.d", "l'x"])
        new = rng.choice(["New", "new name", "n.m", "q'r"])
        t1 = Table(n1); t2 = Table(n2)
        body.append(t1); body.append(t2)
        t1.set_named_range("r_one", (1, 2, 3, 4))
        t2.set_named_range("r_two", "B2")
        t1.set_named_range("r_three", "C3:D4")
        case = {"op": "rename", "n1": n1, "n2": n2, "new": new}
        chk.case(("rename", n1, n2, new), nontrivial=True)
        try:
            t1.name = new
            doc2 = Document(_roundtrip(doc))
            got = {nr.name: (nr.table_name, tuple(nr.crange)) for nr in doc2.body.get_named_ranges()}
        except Exception as e:  # noqa: BLE001
            chk.fail({**case, "exception": repr(e)}, "rename / reload raised")
            continue
        exp = {"r_one": (new, (1, 2, 3, 4)), "r_two": (n2, (1, 1, 1, 1)), "r_three": (new, (2, 2, 3, 3))}
        if got != exp:
            chk.fail({**case, "got": got, "expected": exp}, "renaming a table does not update exactly the named ranges that point to it")


def _esc(s: str) -> str:
    return s.replace("&", "&amp;").replace("<", "&lt;").replace('"', "&quot;")


def _roundtrip(doc):
    import io

    bio = io.BytesIO()
    doc.save(bio)
    bio.seek(0)
    return bio


def replay(obj: dict) -> int:
    print(obj)
    return 0
