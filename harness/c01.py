"""C01 — the table editing API behaves like a plain grid of cells under every history.

oracle (model-free): after every step of every history the live reads equal what the same
ops give on an uncompressed list-of-lists grid (tables.Grid / ref_apply).
correspondence: the same histories drive OdfModel/Table.lean; its expanded grid and its
run structure are compared with an independent lxml reading of the implementation's XML."""
from __future__ import annotations

import core
import tables as T


def run_histories(chk: core.Check, n_hist: int, max_ops: int, compare_runs: bool, reads: bool = True, extra=None):
    """shared by C01 / C02 / C07; `extra(step_ctx)` lets the caller add its own checks"""
    rng = chk.rng
    lines: list[str] = []
    expects: list[tuple] = []
    for hno in range(n_hist):
        h = T.gen_history(rng, max_ops=max_ops, reads=reads)
        T.POOL = None
        t = T.build_initial(h)
        # in half of the histories the caller hands over the SAME Cell / Row object whenever an operation takes the same
        # (payload, repeat) again (the API stores copies: harmless by contract)
        T.POOL = {} if rng.random() < 0.5 else None
        chk.count("argument objects", "reused across operations" if T.POOL is not None else "fresh for every call")
        g = T.initial_grid(h)
        case0 = {"cols": h["cols"], "rows": h["rows"], "how": h["how"]}
        chk.count("initial", f"{h['how']} rows={len(h['rows'])} rowrep>1={sum(1 for _, r in h['rows'] if r > 1)}")
        xml0 = t.serialize()
        cs, rs, problems, g0 = T.state_of_xml(xml0)
        lines.append(f"tbl init {cs} {rs}")
        expects.append(("state", cs, rs, {**case0, "ops": []}))
        done = []
        for op in h["ops"]:
            done.append(op)
            case = {**case0, "ops": list(done)}
            nontriv = op["op"] != "read" and T.nontrivial_op(g, h["rows"], op)
            chk.count("ops", op["op"] if op["op"] != "read" else "read:" + op["read"])
            try:
                T.impl_apply(t, op)
            except Exception as e:  # noqa: BLE001
                chk.case((hno, len(done)), nontrivial=nontriv)
                chk.fail({**case, "exception": repr(e)}, f"{op['op']} raised {type(e).__name__} where the plain grid accepts the operation")
                break
            if op["op"] == "read":
                continue
            T.ref_apply(g, op)
            chk.case(repr(case), nontrivial=nontriv, sample=case if nontriv and len(done) > 2 else None)
            try:
                bad = T.check_reads(t, g, rng)
            except Exception as e:  # noqa: BLE001
                chk.fail({**case, "exception": repr(e)}, f"after {op['op']}: a read of the table raised {type(e).__name__}")
                break
            if bad:
                what, got, exp = bad[0]
                chk.fail({**case, "read": what, "got": got, "expected": exp},
                         f"after {op['op']}: {what} differs from the plain grid")
                break
            if extra is not None and extra(chk, t, g, case) is False:
                break
            line = T.op_line(op)
            cs, rs, problems, gx = T.state_of_xml(t.serialize())
            lines.append(line)
            expects.append(("state", cs, rs, case))
    T.POOL = None
    answers = core.run_driver(lines)
    for line, ans, (kind, cs, rs, case) in zip(lines, answers, expects):
        if not ans.startswith("ok "):
            chk.disagree({**case, "line": line}, f"model answers {ans!r} where the implementation succeeded")
            continue
        if ans.endswith("spec=DIFF") or ans.endswith("spec=none"):
            chk.disagree({**case, "line": line, "answer": ans}, "Lean model and Lean spec grid differ on this step (the refinement theorem would be false here)")
            continue
        st = T.parse_state(ans)
        mg = T.grid_of_spec(st["cols"], st["rows"])
        ig = T.grid_of_spec(cs, rs)
        if not T.same(mg.cells(), ig.cells()) or mg.ncols != ig.ncols:
            chk.disagree({**case, "line": line, "impl": [cs, rs], "model": [st["cols"], st["rows"]]}, "model grid != implementation grid (lxml reading)")
        elif compare_runs and (st["cols"] != cs or st["rows"] != rs):
            chk.disagree({**case, "line": line, "impl": [cs, rs], "model": [st["cols"], st["rows"]]}, "same grid, different run-length structure")
        elif st["cols"] != cs or st["rows"] != rs:
            chk.count("shape", "same grid, different runs")


def run_row_histories(chk: core.Check, n_hist: int, fresh_check: bool = True):
    """the public Row API on a Row object (standalone, or the live row of a table)"""
    from odfdo import Element, Table

    rng = chk.rng
    lines, expects = [], []
    for hno in range(n_hist):
        h = T.gen_row_history(rng)
        ref = T.expand_line(h["line"])
        row_xml = T.table_from_rle([(None, max(1, len(ref)))], [(h["line"], 1)])
        table = None
        if h["in_table"]:
            table = row_xml
            row = table.get_row(0, clone=False)
        else:
            row = Element.from_tag(row_xml.get_row(0).serialize())
        lines.append(f"row init {T.enc_cells(h['line'])}")
        expects.append((T.enc_cells(h["line"]), {"row": h["line"], "ops": []}))
        done = []
        for op in h["ops"]:
            done.append(op)
            case = {"row": h["line"], "in_table": h["in_table"], "ops": list(done)}
            chk.count("row_ops", op["op"] if op["op"] != "read" else "read:" + op["read"])
            try:
                T.row_impl_apply(row, op)
            except Exception as e:  # noqa: BLE001
                chk.fail({**case, "exception": repr(e)}, f"Row.{op['op']} raised {type(e).__name__}")
                break
            if op["op"] == "read":
                continue
            n_before = len(ref)
            T.row_ref_apply(ref, op)
            nontriv = op.get("rep", 1) >= 2 or ("x" in op and (op["x"] < 0 or op["x"] >= n_before)) or op["op"] in ("set_values", "set_cells")
            chk.case(("row", repr(case)), nontrivial=nontriv)
            try:
                bad = T.row_reads(row, ref, rng)
                if not bad and fresh_check:
                    fr = Element.from_tag(row.serialize())
                    if not T.same(fr.get_values(), row.get_values()) or fr.width != row.width:
                        bad = [("fresh parse of the row", fr.get_values(), row.get_values())]
                if not bad and table is not None:
                    if not T.same(table.get_values()[0][: len(ref)], [c[0] for c in ref]) or (ref and not T.same(table.get_value((len(ref) - 1, 0)), ref[-1][0])):
                        bad = [("table read of the live row", table.get_values()[0], [c[0] for c in ref])]
            except Exception as e:  # noqa: BLE001
                chk.fail({**case, "exception": repr(e)}, f"a read of the row raised {type(e).__name__}")
                break
            if bad:
                what, got, exp = bad[0]
                chk.fail({**case, "read": what, "got": got, "expected": exp}, f"after Row.{op['op']}: {what} differs from the plain list")
                break
            cells = []
            node = T.lxml_table(f'<table:table table:name="x">{row.serialize()}</table:table>')
            _c, rows_, _p = T.lxml_runs(node)
            lines.append(T.row_op_line(op))
            expects.append((T.enc_cells(rows_[0][0]), case))
    answers = core.run_driver(lines)
    for line, ans, (cells, case) in zip(lines, answers, expects):
        if not ans.startswith("ok "):
            chk.disagree({**case, "line": line}, f"model answers {ans!r} where the implementation succeeded")
            continue
        got = ans.split("cells=")[1].split(" ")[0]
        def _exp(spec):
            return T.expand_line([(T.id_pay(int(c.split("*")[0])), int(c.split("*")[1])) for c in ([] if spec == "e" else spec.split(","))])

        if not T.same(_exp(got), _exp(cells)):
            chk.disagree({**case, "line": line, "impl": cells, "model": got}, "Row: model cells != implementation cells")


def run(chk: core.Check) -> None:
    chk.rule = (
        "histories: initial table drawn as a run-length encoding (row/cell/column repeats in {1,2,3,7}, ragged rows, styled empty cells), built by "
        "parsing XML or through the API; 1-8 ops over 17 mutators with positions weighted to run interior / run boundary / edge / beyond / negative, "
        "arguments carrying repeats; cache-filling reads interleaved; after EVERY mutation size, full matrix, random get_value/get_cell (in, at, beyond, "
        "negative), row, row width, column, area and traverse are compared with the plain grid. non-trivial = the op carries a repeat >= 2 or addresses "
        "the edge / beyond / a negative index; distinct by (initial encoding, op prefix)"
    )
    run_histories(chk, chk.n(1000, 20000), 8, compare_runs=False)
    run_row_histories(chk, chk.n(700, 10000))


def replay(obj: dict) -> int:
    print(obj)
    return 0
